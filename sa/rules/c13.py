"""C13 - stabiliser presentation, core and intersection tables: operand slots and coverage (partial)."""
from ..core import *
from ..templates import *

S = "fpgroups::stabilizer::"
C = "fpgroups::cosets::"
CT = C + "CosetTable"

EXPLANATION = (
    "Decided (partial; exactness of the presentation is NOT decided): structural necessary conditions of the Reidemeister-Schreier "
    "construction and of the two product/quotient tables. (1) Schreier transversal: spanning_tree records (point, gen) exactly when the "
    "image was unseen and queues it; point_to_word[ct.get(pt, gen)] = point_to_word[pt] * gen for every tree edge, in tree order. (2) "
    "Schreier generators: a generator wx * g * wy^-1 is created exactly for edges (px, g) that carry no word yet, with wx the word of px "
    "and wy the word of ct.get(px, g) for the same px and g, over all rows 0..len() and all letters +-1..+-nr_gens; the new edge gets the "
    "one-letter word of the generator's own number (its index after the push), and its consequences are closed at once. (3) edge words: "
    "close_relations_in_place stores w at (point, gen) and w.inverse() at (ct.get(point, gen), -gen), and propagates exactly when one edge "
    "of a relator cycle is still unlabelled. (4) rewritten relators: every relator is traced from every row (no skipping), only non-empty "
    "representatives not seen before are kept. (5) core table: the regular action on the tuple of all rows 0..len() with image "
    "base.get(e, g) component-wise, built by induced_table (which numbers new images consecutively, joins (i, image, g) and compacts). "
    "(6) intersection table: starts at the pair of base rows (0, 0), the image pair of (a, b) under g is (ta.get(a, g), tb.get(b, g)) in "
    "that order, new pairs are numbered by the current table length, join(i, number, g), compacted on return. NOT decided: that the "
    "generators generate the full stabiliser, that the relators present it, row counts of core/intersection.")
TRUSTED = ["rustc MIR lowering", "C11/C12 coset tables, C10 reduced words"]
ASSUMPTIONS = ["valid transitive coset table (as the property states)"]


def first_letter_guarded(ctx, g):
    """relators_by_start_gen files every rotation / inverse of every relator under its first letter; a relator that freely reduces to the empty word
    has the empty word as its only 'rotation' and no first letter - it constrains nothing and must be skipped, not indexed"""
    ctx.clauses.append("relators are filed under their first letter only if they have one: a trivial (empty) relator is skipped (T5)")
    b = ctx.body("fpgroups::stabilizer::relators_by_start_gen")
    ctx.scan(ctx.facts.with_closures(b.name))
    n = 0
    bad = []
    for bi, t in b.calls("Index::index"):
        a = [strip(norm(b.origin(x), g)) for x in t["args"]]
        if "FreeWord" not in t["callee"].get("resolved", "") and "FreeWord" not in str(t["callee"].get("args", "")):
            continue
        n += 1
        ln = ("call", "fpgroups::free_words::FreeWord::len", (a[0],))
        fa = [atom_norm(x, g) for x in b.facts_at(bi)]
        # rotations and inverses have the length of the relator they come from: a non-emptiness fact about `rel` covers every w of
        # relator_permutations(rel)
        src = iter_source(b, a[0], g)
        srcs = [strip(y[2][0]) for y in subterms(norm(src, g))] if False else []
        if isinstance(src, tuple):
            srcs = [strip(y[2][0]) for y in subterms(norm(src, g)) if is_call(y, "free_words::relator_permutations")]
        for rel_t in srcs:
            lr = ("call", "fpgroups::free_words::FreeWord::len", (rel_t,))
            fa += [("rel", x[1], ln if strip(x[2]) == lr else x[2], ln if strip(x[3]) == lr else x[3]) for x in fa if x[0] == "rel" and lr in (strip(x[2]), strip(x[3]))]
        ok = any(x[0] == "rel" and (implies(x, ("rel", "Lt", a[1], ln)) or (a[1] == ("int", 0) and (implies(x, ("rel", "Ne", ln, ("int", 0))) or implies(x, ("rel", "Lt", ("int", 0), ln))))) for x in fa) or \
            any(x[0] == "bool" and x[2] is False and is_call(x[1], "is_empty") for x in fa)
        if not ok:
            bad.append(show(a[1], 1)[:20])
    ctx.floor("first-letter reads in relators_by_start_gen", n, 1)
    # ... and ONLY the empty relators are skipped: a one-letter relator `a` does constrain the group (guard evaluated for lengths 0, 1, 2, 5)
    ents = list(b.calls("BTreeMap::<K, V, A>::entry")) or list(b.calls("::entry"))
    ctx.floor("relators filed under their first letter", len(ents), 1)
    for bi, t in ents:
        tab = reach_table_by_length(b, bi, g)
        okt = tab == {0: False, 1: True, 2: True, 5: True}
        ctx.ob("T3-every-relator-filed", b.name, "entry(w[0]) <- rel.len() > 0", "ok" if okt else "violation",
               "every relator of length >= 1 is filed, exactly the empty ones are skipped" if okt else
               "relators are not filed exactly when non-empty (reached for lengths %s): relators of the dropped lengths no longer constrain the stabiliser's presentation" % (
                   tab if tab is None else [L for L, v in tab.items() if v]), b.span_of(bi))
    ctx.ob("T5-first-letter-guarded", b.name, "w[0] <- w.len() > 0", "ok" if not bad else "violation",
           "the first letter is read only of non-empty words" if not bad else
           "w[%s] is read of every rotation of every relator: stabilizer() panics on a presentation with a trivial relator such as a a^-1 (its only rotation is the empty word)" % ", ".join(bad))


def trace_word_shape(ctx, g):
    """stabilizer::trace_word(point, w, edge_to_word, ct) rewrites w, read from row `point`, in the Schreier generators: for every letter g, in
    order, the word of the edge (p, g) at the CURRENT row is appended, then p moves on to ct.get(p, g).  The lookup must see the row before
    the step (decided by dominance: the product comes before the step inside one round, and the step's result feeds the next round)"""
    ctx.clauses.append("trace_word: for every letter g of w in order: result *= word(p, g) at the current row, then p := ct.get(p, g) (T9)")
    b = ctx.body(S + "trace_word")
    ctx.scan([b])
    point, w, e2w, ct = (("param", k, b.debug.get(k, "")) for k in (1, 2, 3, 4))
    loops = natural_loops(b)
    bad = None
    if len(loops) != 1:
        bad = "%d loops" % len(loops)
    else:
        h, blocks = loops[0]
        blocks = set(blocks)
        muls = [(bi, strip(norm(b.origin(t["args"][1]), g))) for bi, t in b.calls("MulAssign::mul_assign")]
        if len(muls) != 1 or muls[0][0] not in blocks:
            bad = "not one product per letter"
        else:
            mb, mv = muls[0]
            gets = [x for x in subterms(mv) if isinstance(x, tuple) and x and x[0] == "call" and x[1].endswith("::get") and strip(x[2][0]) == e2w]
            key = strip(gets[0][2][1]) if len(gets) == 1 else None
            if key is None or key[0] != "agg" or len(key[2]) != 2 or strip(key[2][0])[0] != "local":
                bad = "the word appended is not edge_to_word.get(&(p, g)): %s" % show(mv, 1)[:70]
            else:
                p, gl = strip(key[2][0]), strip(key[2][1])
                src = iter_source(b, gl, g)
                defs = [(dbb, strip(norm(t_, g))) for dbb, t_ in b.all_defs_origins(p[1])]
                ini = [t_ for dbb, t_ in defs if dbb not in blocks]
                stp = [(dbb, t_) for dbb, t_ in defs if dbb in blocks]
                okstep = len(stp) == 1 and is_call(stp[0][1], "Option::<T>::unwrap") and is_call(strip(stp[0][1][2][0]), "CosetTable::get") and \
                    [strip(y) for y in strip(stp[0][1][2][0])[2]] == [ct, p, gl]
                if ini != [point] or not okstep:
                    bad = "the row is not `p = point; p = ct.get(p, g).unwrap()` once per letter"
                elif not (isinstance(src, tuple) and contains(norm(src, g), lambda y: y == w)):
                    bad = "the letters are not those of w"
                elif not (b.dominates(mb, stp[0][0]) and mb != stp[0][0]):
                    bad = "the edge word is looked up AFTER the row has moved on (it must be the word of the edge leaving the current row)"
                elif strip(norm(b.local_origin(0), g)) != strip(norm(b.origin(b.blocks[mb]["term"]["args"][0]), g)):
                    bad = "the word returned is not the product accumulated"
    ctx.ob("T9-trace-word", b.name, "rewrite", "ok" if not bad else "violation", "result *= word(p, g); p := ct.get(p, g) for every letter of w, from row `point`" if not bad else bad)


def _fw_reduce(w):
    out = []
    for x in w:
        if out and out[-1] == -x:
            out.pop()
        elif x != 0:
            out.append(x)
    return out


def exact_guards(ctx, g):
    """stabilizer.rs on value tables.  (1) Schreier generators are looked for at EVERY letter: the pipeline (1..=nr_gens).flat_map(|i| [i, -i]) is
    interpreted for 3 generators and must give each of +-1, +-2, +-3 once.  (2) rewritten relators are kept exactly when non-empty (guard on a length
    table).  (3) the word solved for the single unlabelled edge of a relator walk: with r = u h v read from the walk's start and the unlabelled
    occurrence of h at position i, the word stored is the one that makes the walk trivial, word(h) = (v u)^-1 - decided by evaluating
    (r.rotated(i + 1) * -h).inverse() on sample words with a reference model of rotated / * / inverse (these are tied to the crate by C10).
    (4) the single cut is cuts[0]"""
    ctx.clauses.append("stabilizer: all letters +-1..+-n searched for Schreier generators; rewritten relators kept iff non-empty; the word solved for a single unlabelled edge makes the relator walk trivial (evaluated on sample words); cuts[0] (T4)")
    b = ctx.body(S + "stabilizer")
    ctx.scan(ctx.facts.with_closures(b.name))
    ct = ("param", 3, b.debug.get(3, ""))
    bad = None
    fms = [strip(norm(b.origin(t["args"][0]), g)) for bi, t in b.calls("Iterator::flat_map")] + \
          [("call", "std::iter::Iterator::flat_map", tuple(strip(norm(b.origin(x), g)) for x in t["args"])) for bi, t in b.calls("Iterator::flat_map")]
    pipes = [x for x in fms if is_call(x, "Iterator::flat_map")]
    if len(pipes) != 1:
        bad = "the letters are not produced by one flat_map over the generators"
    else:
        src, clo = pipes[0][2][0], pipes[0][2][1]
        ng = [y for y in subterms(src) if isinstance(y, tuple) and y and ((y[0] == "call" and y[1].endswith("nr_gens")) or (y[0] == "field" and y[2] == "nr_gens"))]
        try:
            items = eval_pipeline(ctx.facts, ("call", "x::collect", (src,)), g, [], {y: 3 for y in ng})
        except PipelineError as e:
            items = None
            bad = "the generator range cannot be evaluated (%s)" % e
        if items is not None:
            letters = []
            for k in items:
                r_ = apply_closure(ctx.facts, clo, [("int", k)], g)
                r_ = strip(simplify_proj(r_)) if r_ is not None else None
                vals = [eval_term_env(unov_deep(fold_std_ops(x)), {}) for x in r_[2]] if r_ is not None and r_[0] == "agg" else [None]
                letters += vals
            if sorted(x for x in letters if x is not None) != [-3, -2, -1, 1, 2, 3] or None in letters:
                bad = "for 3 generators the letters searched for Schreier generators are %s, not each of +-1, +-2, +-3 once" % letters
    ctx.ob("T4-exact-guards", b.name, "letters +-1..+-n", "ok" if not bad else "violation", "for 3 generators: each of +-1, +-2, +-3 once" if not bad else bad)
    bad = None
    pushes = [(bi, strip(norm(b.origin(t["args"][1]), g))) for bi, t in b.calls("Vec::<T, A>::push")]
    relp = [bi for bi, v in pushes if contains(v, lambda y: is_call(y, "relator_representative")) or (v[0] == "local" and any(is_call(strip(norm(d, g)), "relator_representative") for _, d in b.all_defs_origins(v[1])))]
    if len(relp) != 1:
        bad = "%d pushes of rewritten relators" % len(relp)
    else:
        tab = reach_table_by_length(b, relp[0], g)
        if tab != {0: False, 1: True, 2: True, 5: True}:
            bad = "rewritten relators are kept for lengths %s only (a one-letter relator kills a generator of the stabiliser: dropping it changes the group)" % (tab if tab is None else [L for L, v in tab.items() if v])
    ctx.ob("T4-exact-guards", b.name, "subrels.push <- w.len() > 0", "ok" if not bad else "violation", "kept exactly when non-empty (lengths 0, 1, 2, 5)" if not bad else bad)
    cb = ctx.body(S + "close_relations_in_place")
    ctx.scan([cb])
    bad = None
    cp = [(bi, strip(norm(cb.origin(t["args"][1]), g))) for bi, t in cb.calls("Vec::<T, A>::push")]
    cp = [(bi, v) for bi, v in cp if v[0] == "agg" and len(v[2]) == 3]
    if len(cp) != 1:
        bad = "%d pushes of (row, letter, word) cuts" % len(cp)
    else:
        bi, v = cp[0]
        x_, h_, w_ = (strip(z) for z in v[2])
        ix = as_index(h_)
        if not ix:
            bad = "the letter of a cut is not r[i]"
        else:
            r_t, i_t = ix[0], strip(ix[1])

            def ev(t, env):
                t = strip(t)
                if t == r_t:
                    return list(env["r"])
                if t == i_t:
                    return env["i"]
                if t[0] == "int":
                    return t[1]
                if t[0] == "cast":
                    return ev(t[1], env)
                if t[0] == "field" and t[1][0] == "binop" and str(t[2]) == "0":
                    return ev(("binop", t[1][1].replace("WithOverflow", ""), t[1][2], t[1][3]), env)
                if t[0] == "binop" and t[1] in ("Add", "Sub"):
                    a_, b_ = ev(t[2], env), ev(t[3], env)
                    return None if a_ is None or b_ is None or isinstance(a_, list) or isinstance(b_, list) else (a_ + b_ if t[1] == "Add" else a_ - b_)
                if as_index(t) and as_index(t)[0] == r_t:
                    k = ev(as_index(t)[1], env)
                    return None if k is None else env["r"][k]
                if t[0] == "unop" and t[1] == "Neg" or is_call(t, "Neg::neg"):
                    a_ = ev(t[2] if t[0] == "unop" else t[2][0], env)
                    return None if a_ is None or isinstance(a_, list) else -a_
                if is_call(t, "FreeWord::rotated"):
                    w, k = ev(t[2][0], env), ev(t[2][1], env)
                    if w is None or k is None or not w:
                        return w
                    k %= len(w)
                    return _fw_reduce(w[k:] + w[:k])
                if is_call(t, "FreeWord::inverse"):
                    w = ev(t[2][0], env)
                    return None if w is None else [-x for x in reversed(w)]
                if is_call(t, "Mul::mul"):
                    a_, b_ = ev(t[2][0], env), ev(t[2][1], env)
                    if a_ is None or b_ is None:
                        return None
                    return _fw_reduce((a_ if isinstance(a_, list) else [a_]) + (b_ if isinstance(b_, list) else [b_]))
                if is_call(t, "Clone::clone"):
                    return ev(t[2][0], env)
                return None
            n = 0
            for r in ([1, 2, 3], [1, 2, -3, 2], [2, 2, 2], [1, 2, 1, 2, 1, 2], [3, -1, 2, 2, 1]):
                for i in range(len(r)):
                    got = ev(w_, {"r": r, "i": i})
                    rest = r[i + 1:] + r[:i]
                    want = _fw_reduce([-x for x in reversed(rest)])
                    n += 1
                    if got is None:
                        bad = bad or "the word stored with a cut cannot be evaluated: %s" % show(w_, 1)[:70]
                    elif got != want:
                        bad = bad or "for the relator %s with its unlabelled edge at position %d the word stored is %s; the one that closes the walk is %s (inverse of the rest of the relator read after that letter)" % (r, i, got, want)
            if not bad and n == 0:
                bad = "nothing evaluated"
    ctx.ob("T4-exact-guards", cb.name, "word of the cut edge", "ok" if not bad else "violation", "word(h) = (rest of the relator after h, cyclically)^-1 on 5 sample relators at every position" if not bad else bad)
    bad = None
    lens = [(bi, a) for bi, t in cb.calls("Index::index") for a in [[strip(norm(cb.origin(x), g)) for x in t["args"]]] if a[0][0] == "local" and "Vec<(usize, isize" in cb.local_ty(a[0][1])]
    if len(lens) != 1 or eval_int(lens[0][1][1]) != 0:
        bad = "the single cut is not read as cuts[0]: %s" % [show(a[1], 1) for _, a in lens]
    ctx.ob("T4-exact-guards", cb.name, "cuts[0]", "ok" if not bad else "violation", "under cuts.len() == 1 the cut read is cuts[0]" if not bad else bad)


def base_constants(ctx, g):
    """row 0 is the base row everywhere: coset_representative starts its search and its word table at row 0 (empty word); induced_table numbers the
    start state 0 in both directions; intersection_table marks unvisited pairs with -1, numbers the base pair (0, 0) as 0, queues it, tests `visited`
    as entry < 0 exactly (0 is a valid number), and reads / writes the pair components in one order: (a, b) = n2o[i], images (ta.get(a, g), tb.get(b, g)),
    stored and queued as (ag, bg)"""
    ctx.clauses.append("base row 0 in coset_representative / induced_table / intersection_table; unvisited pairs are exactly the entries < 0; pair components in one order (T4)")
    C = "fpgroups::cosets::"
    lit = lambda t: map_term(t, lambda y: None)
    b = ctx.body(C + "coset_representative")
    froms = [strip(norm(b.origin(t["args"][0]), g)) for bi, t in b.calls("From::from")]
    ok = ("agg", "array", (("int", 0),)) in froms and any(f[0] == "agg" and f[1] == "array" and len(f[2]) == 1 and strip(f[2][0])[0] == "agg" and eval_int(strip(f[2][0])[2][0]) == 0 and is_call(strip(strip(f[2][0])[2][1]), "FreeWord::empty") for f in froms)
    ctx.ob("T4-base-constants", b.name, "queue = [0], words = {0: empty}", "ok" if ok else "violation",
           "the search for representatives starts at row 0 with the empty word" if ok else "coset_representative does not start from row 0 with the empty word: %s" % [show(f, 1)[:40] for f in froms])
    b = ctx.body(C + "induced_table")
    froms = [strip(norm(b.origin(t["args"][0]), g)) for bi, t in b.calls("From::from")]
    def pair(f):
        return [strip(z) for z in strip(f[2][0])[2]] if f[0] == "agg" and f[1] == "array" and len(f[2]) == 1 and strip(f[2][0])[0] == "agg" and len(strip(f[2][0])[2]) == 2 else None
    ps = [pair(f) for f in froms if pair(f)]
    ok = len(ps) == 2 and any(eval_int(p[0]) == 0 and eval_int(p[1]) is None for p in ps) and any(eval_int(p[1]) == 0 and eval_int(p[0]) is None for p in ps)
    ctx.ob("T4-base-constants", b.name, "o2n = {start: 0}, n2o = {0: start}", "ok" if ok else "violation",
           "the start state is number 0 in both maps" if ok else "induced_table does not number its start state 0 in both directions: %s" % [[show(z, 1)[:20] for z in p] for p in ps])
    b = ctx.body(C + "intersection_table")
    ctx.scan([b])
    ta, tb = ("param", 1, b.debug.get(1, "")), ("param", 2, b.debug.get(2, ""))
    bad = None
    fills = [[strip(norm(b.origin(x), g)) for x in t["args"]] for bi, t in b.calls("vec::from_elem")]
    inner = [f for f in fills if eval_int(f[0]) is not None]
    stores = []
    for bi, si, s in b.assigns():
        if [e["k"] for e in s["place"]["p"]] == ["deref"]:
            tgt = strip(norm(b.local_origin(s["place"]["l"]), g))
            if is_call(tgt, "IndexMut::index_mut") and is_call(strip(tgt[2][0]), "IndexMut::index_mut"):
                stores.append((bi, strip(strip(tgt[2][0])[2][1]), strip(tgt[2][1]), strip(norm(b.rv_origin(s["rv"]), g))))
    pushes = [(bi, strip(norm(b.origin(t["args"][1]), g))) for bi, t in b.calls("Vec::<T, A>::push")]
    base_store = [x for x in stores if eval_int(x[1]) == 0 and eval_int(x[2]) == 0 and eval_int(x[3]) == 0]
    base_push = [x for x in pushes if x[1] == ("agg", "tuple", (("int", 0), ("int", 0)))]
    new_store = [x for x in stores if x not in base_store]
    new_push = [x for x in pushes if x not in base_push]
    if not (len(inner) == 1 and eval_int(inner[0][0]) == -1):
        bad = "the pair table is not filled with -1 (= not visited)"
    elif len(base_store) != 1 or len(base_push) != 1:
        bad = "the base pair (0, 0) is not numbered 0 and queued first"
    elif len(new_store) != 1 or len(new_push) != 1:
        bad = "a new pair is not numbered and queued once"
    else:
        sb_, ag, bg, val = new_store[0]
        ga = [strip(y) for y in strip(ag[2][0])[2]] if is_call(ag, "Option::<T>::unwrap") and is_call(strip(ag[2][0]), "CosetTable::get") else None
        gb_ = [strip(y) for y in strip(bg[2][0])[2]] if is_call(bg, "Option::<T>::unwrap") and is_call(strip(bg[2][0]), "CosetTable::get") else None
        if not (ga and gb_ and ga[0] == ta and gb_[0] == tb and ga[2] == gb_[2]):
            bad = "the pair table is not indexed by (ta.get(a, g), tb.get(b, g))"
        elif not (ga[1][0] == "field" and gb_[1][0] == "field" and ga[1][2] == "0" and gb_[1][2] == "1" and ga[1][1] == gb_[1][1]):
            bad = "the components of the pair read from the queue are not used in order: first with ta, second with tb"
        elif new_push[0][1] != ("agg", "tuple", (ag, bg)):
            bad = "the new pair is not queued as (ag, bg)"
        elif not (val[0] == "cast" and is_call(strip(val[1]), "CosetTable::len")) and not is_call(val, "CosetTable::len"):
            bad = "a new pair is not numbered table.len()"
        else:
            ent = ("call", "std::ops::Index::index", (("call", "std::ops::Index::index", (strip(norm(b.local_origin(0), g)), ag)), bg))
            for ev_, want in ((-1, True), (0, False), (4, False)):
                def val_(y, ev_=ev_):
                    a = as_index(y)
                    if a and strip(a[1]) == bg and as_index(a[0]) and strip(as_index(a[0])[1]) == ag:
                        return ev_
                    return None
                r = reachable_sites(b, g, {sb_}, val_)
                if (sb_ in r) != want:
                    bad = bad or "a pair whose table entry is %d is %s as new (entries >= 0 are numbers of visited pairs, 0 included)" % (ev_, "treated" if sb_ in r else "not treated")
    ctx.ob("T4-base-constants", b.name, "pairs", "ok" if not bad else "violation", "fill -1; (0, 0) -> 0 queued first; new iff entry < 0; (a, b) / (ta, tb) / (ag, bg) in one order" if not bad else bad)


def run(ctx):
    g = ctx.facts.getters()
    first_letter_guarded(ctx, g)
    trace_word_shape(ctx, g)
    exact_guards(ctx, g)
    base_constants(ctx, g)
    stab(ctx, g)
    close_rel(ctx, g)
    tree(ctx, g)
    core_and_intersection(ctx, g)


def stab(ctx, g):
    b = ctx.body(S + "stabilizer")
    ctx.scan([b])
    ct = ("param", 3, b.debug.get(3, ""))
    ctx.clauses += ["Schreier transversal words follow the spanning tree (T4)", "Schreier generators wx*g*wy^-1 for exactly the unlabelled edges, all rows and letters (T3/T4)",
                    "rewritten relators: every relator from every row, empty/duplicate dropped (T3/T4)"]
    # (1) point_to_word along the tree
    ok1 = False
    for bi, t in [(bi_, t_) for bi_, t_ in b.calls("collections::HashMap::<K, V, S") if t_["callee"].get("def", "").endswith("::insert")]:
        a = [norm(b.origin(x), g) for x in t["args"]]
        if len(a) == 3 and a[2][0] == "call" and a[2][1].endswith("ops::Mul::mul"):
            pt_gen = iter_source(b, a[2][2][1], g)
            key = a[1]
            inner = key[2][0] if key[0] == "call" and key[1].endswith("::unwrap") else key
            w = a[2][2][0]
            if inner[0] == "call" and inner[1] == CT + "::get" and inner[2][0] == ct and w[0] == "call" and w[1].endswith("ops::Index::index") and w[2][1] == inner[2][1] and a[2][2][1] == inner[2][2]:
                pay = inner[2][1]
                while pay[0] == "field" and pay[1][0] == "field":
                    pay = pay[1]
                src = iter_source(b, pay, g)
                ok1 = src is not None and src[0] == "call" and src[1] == S + "spanning_tree" and src[2] == (("param", 1, b.debug.get(1, "")), ct)
                every_iteration_reaches(ctx, "T3-no-skipped-tree-edge", b, bi, "tree-loop->point_to_word.insert", "some tree edge does not extend the transversal")
    ctx.ob("T4-transversal", b.name, "point_to_word[get(pt, gen)] = point_to_word[pt] * gen", "ok" if ok1 else "violation",
           "transversal words are extended along the spanning tree of the base point" if ok1 else "the transversal is not built as word(pt) * gen for the tree edges (pt, gen) of spanning_tree(base_point, ct)")
    # (2) generators
    pushes = [(bi, t) for bi, t in b.calls("Vec::<T, A>::push") if "FreeWord" in t["callee"].get("path_with_args", "")]
    gens = []
    for bi, t in pushes:
        v = norm(b.origin(t["args"][1]), g)
        if v[0] == "call" and v[1].endswith("ops::Mul::mul") and v[2][0][0] == "call" and v[2][0][1].endswith("ops::Mul::mul"):
            gens.append((bi, t, v))
    ctx.floor("Schreier generator pushes", len(gens), 1)
    for bi, t, v in gens:
        wx, gl = v[2][0][2]
        wyi = v[2][1]
        px = wx[2][1] if wx[0] == "call" and wx[1].endswith("ops::Index::index") else None
        ok = px is not None and wyi[0] == "call" and wyi[1].endswith("FreeWord::inverse")
        if ok:
            wy = wyi[2][0]
            tgt = wy[2][1] if wy[0] == "call" and wy[1].endswith("ops::Index::index") else None
            tgt = tgt[2][0] if tgt is not None and tgt[0] == "call" and tgt[1].endswith("::unwrap") else tgt
            ok = tgt == ("call", CT + "::get", (ct, px, gl)) and wx[2][0] == wy[2][0]
        ctx.ob("T4-schreier-generator", b.name, "wx * g * wy.inverse()", "ok" if ok else "violation",
               "generator = word(px) * g * word(ct.get(px, g))^-1 for one px and g" if ok else "the Schreier generator is not word(px) * g * word(ct.get(px, g))^-1 with consistent px, g: " + show(v, 1)[:100], b.span_of(bi))
        fa = [atom_norm(a, g) for a in b.facts_at(bi, deep=True)]
        unl = any(a[0] == "bool" and a[2] is True and a[1][0] == "call" and a[1][1].endswith("is_none") and a[1][2][0][0] == "call" and a[1][2][0][1].endswith("::get") and
                  a[1][2][0][2][1] == ("agg", "tuple", (px, gl)) for a in fa) if px is not None else False
        ctx.ob("T3-generator-only-for-unlabelled-edge", b.name, "push<-edge_to_word.get(&(px, g)).is_none()", "ok" if unl else "violation",
               "a generator is created only for an edge that has no word yet (test still valid at the push)" if unl else "a generator is created without a still-valid test that the edge (px, g) is unlabelled", b.span_of(bi))
        rp = loop_range_of_payload(b, px, g) if px is not None and px[0] == "field" else None
        okp = rp is not None and rp[0] == ("int", 0) and not rp[2] and rp[1] == ("call", CT + "::len", (ct,))
        ctx.require(okp, "T4-all-rows-and-letters", b.name, "px in 0..ct.len()", "all rows are examined", "rows examined for Schreier generators are not 0..ct.len()", b.span_of(bi))
        src = iter_source(b, gl, g) if gl[0] == "field" else None
        okl = src is not None and contains(src, lambda x: isinstance(x, tuple) and x and x[0] == "call" and x[1].endswith("Iterator::flat_map")) and \
            contains(src, lambda x: isinstance(x, tuple) and x and ((x[0] == "call" and x[1] == CT + "::nr_gens") or (x[0] == "field" and x[2] == "nr_gens" and x[1] == ct)))
        ctx.require(okl, "T4-all-rows-and-letters", b.name, "g in +-1..+-nr_gens", "all letters and inverse letters are examined", "letters examined are not all of +-1..+-nr_gens: " + (show(src, 1)[:60] if src else "?"), b.span_of(bi))
        # the new edge word is the generator's own number and consequences are closed
        okn = False
        for cb, c in b.calls(exact=S + "close_relations_in_place"):
            a = [norm(b.origin(x), g) for x in c["args"]]
            if a[1] == ("agg", "tuple", (px, gl)) and b.dominates(bi, cb) and cb != bi:
                w = a[2]
                if w[0] == "call" and w[1].endswith("convert::From::from") and w[2][0][0] == "agg" and w[2][0][2][0][0] == "call" and w[2][0][2][0][1].endswith("::len"):
                    # the length must be read after the push (the generator's own 1-based number)
                    raw = b.origin(c["args"][2])
                    lens = [x for x in subterms(raw) if isinstance(x, tuple) and len(x) > 4 and x[0] == "call" and x[1].endswith("::len")]
                    okn = bool(lens) and all(b.dominates(bi, x[4]) and x[4] != bi for x in lens)
        ctx.ob("T4-new-edge-word", b.name, "close_relations_in_place(.., (px, g), [generators.len()], ..)", "ok" if okn else "violation",
               "after the push the edge gets the one-letter word of the new generator's number and relations are closed" if okn else
               "the new generator's edge is not labelled with [generators.len()] after the push / relations are not closed from it")
    # (4) subrelators
    sp = [(bi, t) for bi, t in pushes if (bi, t) not in [(x[0], x[1]) for x in gens]]
    okr = False
    for bi, t in sp:
        v = norm(b.origin(t["args"][1]), g)
        if v[0] == "call" and v[1].endswith("relator_representative") and v[2][0][0] == "call" and v[2][0][1] == S + "trace_word":
            tw = v[2][0]
            rp = loop_range_of_payload(b, tw[2][0], g) if tw[2][0][0] == "field" else None
            rs = iter_source(b, tw[2][1], g) if tw[2][1][0] == "field" else None
            rows = rp is not None and rp[0] == ("int", 0) and not rp[2] and rp[1] == ("call", CT + "::len", (ct,))
            rels = rs is not None and contains(rs, lambda x: x == ("param", 2, b.debug.get(2, "")))
            fa = b.facts_at(bi)
            nonempty = holds(fa, ("rel", "Lt", ("int", 0), ("call", "fpgroups::free_words::FreeWord::len", (v,))), g)
            okr = rows and rels and nonempty and tw[2][3] == ct
            for tb_, tt in b.calls(exact=S + "trace_word"):
                every_iteration_reaches(ctx, "T3-no-skipped-relator-row", b, tb_, "row x relator loop->trace_word", "some (row, relator) pair is not rewritten: relators of the subgroup are missing")
    ctx.ob("T4-rewritten-relators", b.name, "subrels.push(rep(trace_word(p, r, ..)))", "ok" if okr else "violation",
           "every relator is traced from every row 0..len(); non-empty representatives are kept" if okr else "the rewritten relators are not rep(trace_word(p, r)) over all rows and all given relators with the non-empty test")


def close_rel(ctx, g):
    ctx.clauses.append("edge words: w at (point, gen), w^-1 at (ct.get(point, gen), -gen); propagate on exactly one unlabelled edge (T3/T4)")
    b = ctx.body(S + "close_relations_in_place")
    ctx.scan([b])
    ct = ("param", 5, b.debug.get(5, ""))
    ins = [[norm(b.origin(x), g) for x in t["args"]] for bi, t in [(bi_, t_) for bi_, t_ in b.calls("collections::HashMap::<K, V, S") if t_["callee"].get("def", "").endswith("::insert")]]
    fwd = [a for a in ins if a[1][0] == "agg" and a[2][0] != "call"]
    inv = [a for a in ins if a[2][0] == "call" and a[2][1].endswith("FreeWord::inverse")]
    ok = False
    for f in fwd:
        pt, gn = f[1][2]
        for i_ in inv:
            k0, k1 = i_[1][2] if i_[1][0] == "agg" else (None, None)
            k0i = k0[2][0] if k0 is not None and k0[0] == "call" and k0[1].endswith("::unwrap") else k0
            if k0i == ("call", CT + "::get", (ct, pt, gn)) and k1 in (("unop", "Neg", gn), ("call", "std::ops::Neg::neg", (gn,))) and i_[2][2][0] == f[2]:
                ok = True
    ctx.ob("T4-edge-word-pair", b.name, "insert((point, gen), w) / insert((get(point, gen), -gen), w.inverse())", "ok" if ok else "violation",
           "both directions of an edge get mutually inverse words" if ok else "the two directions of an edge are not labelled with w and w.inverse() at (point, gen) and (ct.get(point, gen), -gen)")
    okp = False
    for bi, t in b.calls("VecDeque::<T, A>::push_back"):
        fa = [atom_norm(a, g) for a in b.facts_at(bi)]
        if any(a[0] == "rel" and a[1] == "Eq" and a[3] == ("int", 1) and a[2][0] == "call" and a[2][1].endswith("::len") for a in fa):
            okp = True
    ctx.ob("T3-propagate-single-cut", b.name, "push_back<-cuts.len() == 1", "ok" if okp else "violation",
           "a relator cycle propagates a word exactly when one of its edges is unlabelled" if okp else "propagation is not guarded by cuts.len() == 1")
    # ... counted WITH MULTIPLICITY: a relator such as (ab)^k can cross the same unlabelled edge several times; only if it crosses it exactly
    # once (and everything else on the walk is known) can the edge's word be solved for.  The unlabelled occurrences are therefore kept in a
    # sequence that grows by one per occurrence, not in a map or set keyed by the edge.
    okseq = False
    why = "no length test found"
    for bi, t in b.calls("VecDeque::<T, A>::push_back"):
        for a in b.facts_at(bi):
            a = atom_norm(a, g)
            if a[0] == "rel" and a[1] == "Eq" and a[3] == ("int", 1) and a[2][0] == "call" and a[2][1].endswith("::len"):
                coll = strip(a[2][2][0])
                ty = b.local_ty(coll[1]) if coll[0] == "local" else ""
                isvec = a[2][1].endswith("Vec::<T, A>::len") or "Vec<" in ty and "Map" not in ty and "Set" not in ty
                pushes = [pb for pb, pt in b.calls("Vec::<T, A>::push") if strip(norm(b.origin(pt["args"][0]), g)) == coll]
                guarded = all(any(atom_norm(x, g)[0] == "bool" and is_call(atom_norm(x, g)[1], "contains_key") and atom_norm(x, g)[2] is False for x in b.facts_at(pb)) for pb in pushes)
                okseq = isvec and len(pushes) >= 1 and guarded
                why = "the collection is %s with %d per-occurrence pushes under !contains_key" % (ty[:40] or a[2][1].split("::")[-2], len(pushes))
                # ... and under nothing else: every condition that holds at the push but not yet at the contains_key test must BE that test
                # (a second conjunct such as `not already in cuts` drops repeated occurrences again)
                for pb in pushes:
                    cks = [cb for cb, ct_ in b.calls("contains_key") if b.dominates(cb, pb)]
                    if not cks:
                        continue
                    before = {repr(atom_norm(x, g)) for x in b.facts_at(cks[-1])}
                    extra = []
                    # facts established by the program's tests only: conditions of MIR assertions (overflow of `-h`, bounds) are not guards
                    tested = []
                    for edge, (term_, val_) in b.dominating_edges(pb):
                        if b.blocks[edge[0]]["term"]["k"] == "assert":
                            continue
                        tested += atoms_of(term_, val_)
                    for x in tested:
                        x = atom_norm(x, g)
                        if repr(x) in before or is_ovf_atom(x):
                            continue
                        if contains(("agg", "x", tuple(y for y in x[1:] if isinstance(y, tuple))), lambda y: is_call(y, "contains_key")):
                            continue
                        extra.append(x)
                    if extra:
                        okseq = False
                        why = "an unlabelled occurrence is recorded only if additionally %s" % show_atom(extra[0])[:70]
    ctx.ob("T3-propagate-single-cut", b.name, "cuts counts occurrences", "ok" if okseq else "violation",
           "unlabelled occurrences are pushed one by one into a Vec and the propagation needs exactly one of them" if okseq else
           "the unlabelled edges of a relator walk are not counted with multiplicity (%s): a relator that crosses one unlabelled edge several times (a power relator at a row with torsion) "
           "wrongly 'deduces' a word for it instead of leaving it to become a stabiliser generator" % why)


def tree(ctx, g):
    b = ctx.body(S + "spanning_tree")
    ctx.scan([b])
    ct = ("param", 2, b.debug.get(2, ""))
    ok = False
    for bi, t in b.calls("Vec::<T, A>::push"):
        v = norm(b.origin(t["args"][1]), g)
        fa = [atom_norm(a, g) for a in b.facts_at(bi)]
        if v[0] == "agg" and len(v[2]) == 2:
            img = ("call", "std::option::Option::<T>::unwrap", (("call", CT + "::get", (ct, v[2][0], v[2][1])),))
            unseen = any(a[0] == "bool" and a[2] is False and a[1][0] == "call" and a[1][1].endswith("::contains") and a[1][2][1] == img for a in fa)
            popped = contains(v[2][0], lambda x: isinstance(x, tuple) and x and x[0] == "call" and x[1].endswith("pop_front"))
            queued = any(norm(b.origin(t2["args"][1]), g) == img for bj, t2 in b.calls("VecDeque::<T, A>::push_back"))
            ok = unseen and popped and queued
    ctx.ob("T3-spanning-tree", b.name, "edges.push((point, gen))<-!seen.contains(get(point, gen))", "ok" if ok else "violation",
           "a tree edge is recorded exactly when it reaches an unseen row, which is then queued" if ok else "spanning_tree does not record (point, gen) under !seen.contains(ct.get(point, gen)) with BFS queueing")


def core_and_intersection(ctx, g):
    ctx.clauses += ["core table = regular action on the tuple of all rows (T4/T9)", "intersection table = orbit of (0, 0) under the product action, slots in order (T4/T9)"]
    b = ctx.body(C + "core_table")
    ctx.scan(ctx.facts.with_closures(b.name))
    base = ("param", 1, b.debug.get(1, ""))
    r = ret_origin(b, g)
    ok = r[0] == "call" and r[1] == C + "induced_table" and r[2][0] == ("field", base, "nr_gens")
    start_ok = ok and contains(r[2][2], lambda x: x == ("agg", "adt:std::ops::Range::Range", (("int", 0), ("call", CT + "::len", (base,)))))
    img_ok = False
    if ok:
        cp = closure_parts(r[2][1])
        for d in ctx.facts.reachable(cp[0], fanout=False) if cp else []:
            res = norm(ctx.facts.bodies[d].local_origin(0), g)
            inner = res[2][0] if res[0] == "call" and res[1].endswith("::unwrap") and res[2] else res
            if inner[0] == "call" and inner[1] == CT + "::get":
                img_ok = True
    ctx.ob("T4-core-table", b.name, "induced_table(nr_gens, es -> es.map(base.get(e, g)), 0..len())", "ok" if ok and start_ok and img_ok else "violation",
           "the core is the action on the tuple of all rows with component-wise images" if ok and start_ok and img_ok else
           "core_table is not induced_table over the tuple (0..base.len()) with images base.get(e, g) (induced: %s, start all rows: %s, image: %s)" % (ok, start_ok, img_ok))
    ib = ctx.body(C + "induced_table")
    ctx.scan([ib])
    joins = [[norm(ib.origin(x), g) for x in t["args"]] for bi, t in ib.calls(exact=CT + "::join")]
    okj = False
    for a in joins:
        num = a[2]
        okj = contains(num, lambda x: isinstance(x, tuple) and x and x[0] == "call" and x[1].endswith("or_insert") and x[2][1] == ("call", CT + "::len", (a[0],))) and \
            contains(num, lambda x: isinstance(x, tuple) and x and x[0] == "call" and x[1].endswith("ops::Fn::call") and a[1] in [y for y in subterms(x)] and a[3] in [y for y in subterms(x)])
    rr = ret_origin(ib, g)
    ctx.ob("T4-induced-table", ib.name, "join(i, number(img(point_i, g)), g); compact()", "ok" if okj and rr[0] == "call" and rr[1].endswith("CosetTable::compact") else "violation",
           "new images are numbered consecutively (table length), joined under the same row and letter; compacted on return" if okj else
           "induced_table does not join (i, or_insert(len) number of img(point_i, g), g) / compact")
    tb = ctx.body(C + "intersection_table")
    ctx.scan([tb])
    ta_, tb_ = ("param", 1, tb.debug.get(1, "")), ("param", 2, tb.debug.get(2, ""))
    joins = [(bi, [norm(tb.origin(x), g) for x in t["args"]]) for bi, t in tb.calls(exact=CT + "::join")]
    ok = False
    why = ""
    for bi, a in joins:
        gl = a[3]
        gets = [x for x in subterms(a[2]) if isinstance(x, tuple) and x and x[0] == "call" and x[1] == CT + "::get"]
        ga = [x for x in gets if x[2][0] == ta_]
        gb = [x for x in gets if x[2][0] == tb_]
        if ga and gb:
            pa, pb = ga[0][2][1], gb[0][2][1]
            same_pair = pa[0] == "field" and pb[0] == "field" and pa[1] == pb[1] and str(pa[2]) == "0" and str(pb[2]) == "1" and contains(pa[1], lambda x: x == a[1])
            same_g = ga[0][2][2] == gl and gb[0][2][2] == gl
            # index order o2n[ag][bg]
            order = a[2]
            order = order[1] if order[0] == "cast" else order
            ok = same_pair and same_g
            why = "pair components (a from ta, b from tb) of row i: %s; same letter: %s" % (same_pair, same_g)
    seeds = [norm(tb.origin(t["args"][1]), g) for bi, t in tb.calls("Vec::<T, A>::push")]
    seed_ok = ("agg", "tuple", (("int", 0), ("int", 0))) in seeds
    rr = ret_origin(tb, g)
    ctx.ob("T4-intersection-table", tb.name, "join(i, number(ta.get(a, g), tb.get(b, g)), g)", "ok" if ok and seed_ok and rr[0] == "call" and rr[1].endswith("CosetTable::compact") else "violation",
           "orbit of (0, 0): the image of the pair (a, b) of row i under g is (ta.get(a, g), tb.get(b, g)); compacted" if ok and seed_ok else
           "intersection_table does not follow (ta.get(a, g), tb.get(b, g)) from the base pair (0, 0) (%s; seed (0,0): %s)" % (why, seed_ok))
