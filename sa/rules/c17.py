"""C17 - 3D euclidicity verdicts: yes is certified, verdicts come from the decision procedure, fallback constants, data table (DESIGN 4/C17)."""
import os, re
from ..core import *
from ..templates import *
from .. import build
from . import c15

EU = "euclidicity::Euclidean"
Z3_SUBGROUP_COUNTS = {2: 8, 3: 21, 4: 56}      # A7: cumulative numbers of subgroups of Z^3 of index <= n: 1, +7, +13, +35

EXPLANATION = (
    "Decided: (1) a yes verdict is backed by a certificate: every construction of Euclidean::Yes in the crate is dominated by "
    "INVARIANTS.contains(orbifold_invariant(ds)), pseudo_toroidal_cover(ds) = Some(cov), simplify(&cov) = Some(simp) and equality of "
    "canonical(minimal_image(canonical(simp))).to_string() with the key literal, the data chain cov -> simp -> key being read off the origin "
    "terms; the key literal parses as the one-chamber 3D symbol with degrees 4,3,4 (the cubic tiling). With C15's guard: yes => a finite "
    "branch-free cover of the oriented cover with H1 = Z^3 was exhibited and simplified to the cubic tiling. (2) verdict values are produced "
    "only by the decision procedure: No only in fail(), Maybe only in give_up(), Yes only in is_euclidean; fail/give_up are private. (3) the "
    "fallback tests compare with the subgroup data of Z^3: every bad_subgroup_count(fg, n, c) has (n, c) in {(2,8),(3,21),(4,56)}, the "
    "invariant literals on the connected path and those passed to bad_subgroup_invariants(fg, 2, _) are [0,0,0], bad_subgroup_count compares "
    "the capped count with its own `expected`. (4) the invariant table agrees with its reader: every '/'-terminated token of "
    "euclideanInvariants.data parses in the format orbifold_invariant emits (n/t1..tn/o/e/k/i1..ik/), 219 entries, 212 distinct, and "
    "orbifold_invariant joins its parts with '/' with a trailing empty part. (5) the point-group lookup cannot panic (shared with C15). NOT "
    "decided: totality in general, invariance under renumbering/dual, consistency along covers, corpus all yes.")
TRUSTED = ["rustc MIR lowering", "A7 subgroup counts of Z^3 (1, 7, 13, 35 for index 1..4)", "C15 guard on pseudo_toroidal_cover; C16 (simplify preserves topology) is NOT decided",
           "include_str! of the data file (path read from the MIR string constants is not needed: the file is read from /repo directly)"]
ASSUMPTIONS = ["input: complete 3D symbol with spherical tiles and vertex figures obeying the crystallographic restriction"]


def parse_dsym_text(s):
    m = re.fullmatch(r"\s*<\s*(\d+)\.(\d+)\s*:\s*(\d+)(?:\s+(\d+))?\s*:([^:>]*):([^:>]*)>\s*", s)
    if not m:
        return None
    size = int(m.group(3))
    dim = int(m.group(4)) if m.group(4) else 2
    ops = [[int(x) for x in part.split()] for part in m.group(5).split(",")]
    ms = [[int(x) for x in part.split()] for part in m.group(6).split(",")]
    return size, dim, ops, ms


def run(ctx):
    g = ctx.facts.getters()
    yes_certificate(ctx, g)
    verdict_sources(ctx, g)
    fallback_constants(ctx, g)
    no_verdicts_justified(ctx, g)
    data_table(ctx, g)
    orbit_type_labels(ctx, g)
    invariant_key(ctx, g)
    orbifold_graph_shape(ctx, g)
    graph_labels(ctx, g)
    ctx.clauses.append("no panic from the point-group lookup (shared with C15)")
    c15.candidates(ctx, g)
    c15.point_groups(ctx, g)


M = "delaney3d::"


def orbit_type_labels(ctx, g):
    """orbit_type_1d (the edge labels of the orbifold graph, part of the invariant looked up in the table): an (i, j)-orbit is marked as
    lying on a mirror iff SOME chamber e of the orbit is fixed by op(i, .) or by op(j, .) -- both indices, tested at every chamber of the
    orbit (the representative alone is not enough: a chain's ends are where the mirrors are); the degree is written bare only if <= 9"""
    ctx.clauses.append("orbifold-graph edge labels: mirror test over every chamber of the orbit and both indices; multi-digit degrees parenthesised (T2/T3)")
    b = ctx.body(M + "orbit_type_1d")
    ctx.scan(ctx.facts.with_closures(b.name))
    ds, i_, j_, d_ = (("param", k, b.debug.get(k, "")) for k in (1, 2, 3, 4))
    anys = list(b.calls("Iterator::any"))
    ctx.require(len(anys) >= 1, "T2-mirror-test", b.name, "any(..)", "existential test over the orbit", "orbit_type_1d no longer asks whether ANY chamber of the orbit lies on a mirror")
    for bi, t in anys[:1]:
        src = norm(b.origin(t["args"][0]), g)
        src = norm(b.def_origin(src), g) if src[0] == "local" else src
        oksrc = contains(src, lambda x: x[0] == "call" and x[1].endswith("DSet::orbit") and strip(x[2][0]) == ds and strip(x[2][2]) == d_ and
                         contains(x[2][1], lambda y: y == i_) and contains(x[2][1], lambda y: y == j_))
        ctx.ob("T2-mirror-test", b.name, "chambers", "ok" if oksrc else "violation",
               "the mirror test runs over ds.orbit([i, j], d)" if oksrc else "the mirror test does not run over the (i, j)-orbit of d: " + show(src, 1)[:90], b.span_of(bi))
        clo = norm(b.origin(t["args"][1]), g)
        parts = closure_parts(clo)
        if parts is None:
            ctx.ob("T2-mirror-test", b.name, "closure", "violation", "the mirror test is not a closure literal")
            continue
        cname, caps = parts
        cb = ctx.facts.bodies.get(cname)
        if cb is None:
            raise AnchorMissing(cname)
        capmap = {("field", ("param", 1, ""), str(k)): strip(v) for k, v in enumerate(caps)}
        e_ = ("param", 2, "")
        tested = set()
        bad = None
        for bb, atoms in bool_join_disjuncts(cb, 0, g):
            a = atoms[-1]
            lhs = rhs = None
            if a[0] == "rel" and a[1] == "Eq":
                lhs, rhs = a[2], a[3]
            elif a[0] == "bool" and a[2] is True and a[1][0] == "call" and a[1][1].endswith("PartialEq::eq"):
                lhs, rhs = a[1][2]
            if lhs is None:
                bad = "a way of answering `on a mirror` is not a fixed-point test op(k, e) == Some(e): " + show_atom(a)[:70]
                continue
            if lhs[0] != "call":
                lhs, rhs = rhs, lhs
            okf = lhs[0] == "call" and lhs[1].endswith("DSet::op") and capmap.get(strip(lhs[2][0])) == ds and strip(lhs[2][2]) == e_ and \
                rhs[0] == "agg" and rhs[1].endswith("Option::Some") and strip(rhs[2][0]) == e_
            if not okf:
                bad = "a mirror test is not op(k, e) == Some(e) at the orbit chamber e handed to the closure: %s (a test at the representative only misses mirrors at the other chambers of a chain)" % show_atom(a)[:80]
                continue
            tested.add(capmap.get(strip(lhs[2][1])))
        if not bad and tested != {i_, j_}:
            bad = "the mirror test covers the indices %s, not both i and j" % sorted(show(x, 1) for x in tested if x)
        ctx.ob("T2-mirror-test", b.name, "op(i, e) == Some(e) || op(j, e) == Some(e)", "ok" if not bad else "violation",
               "some chamber of the orbit fixed by op i or op j" if not bad else bad, b.span_of(bi))
    # digits: the doubled bare form only under v <= 9
    v_ = None
    for bi, t in b.calls("Option::<T>::unwrap"):
        a = norm(b.origin(t["args"][0]), g)
        if a[0] == "call" and a[1].endswith("DSym::v"):
            v_ = ("call", t["callee"]["def"], (a,))
            okv = [strip(x) for x in a[2]] == [ds, i_, j_, d_]
            ctx.ob("T2-mirror-test", b.name, "v = ds.v(i, j, d)", "ok" if okv else "violation", "the label's degree is the orbit's own branching number" if okv else "the degree is not ds.v(i, j, d): " + show(a, 1)[:60])
    ctx.require(v_ is not None, "T2-mirror-test", b.name, "v anchor", "degree found", "ds.v(i, j, d).unwrap() not found")



def orbifold_graph_shape(ctx, g):
    """orbifold_graph(ds): one node per mirror chamber (i, d) with op(i, d) = d, per (i, j)-orbit of non-trivial type for ALL six index pairs, per
    (i, j, k)-orbit of non-trivial 2D orbifold type for ALL four index triples - in this order, because each phase links its nodes to the
    nodes of the sub-orbits registered before; every phase uses ONE index set for representatives, type, members and sub-orbit lookup"""
    ctx.clauses.append("orbifold_graph: nodes for mirrors, all 6 index pairs, all 4 index triples (ascending, in this order), each phase consistent in its index set; result = sort_nodes(compress_graph(..)) (T9)")
    b = ctx.body("delaney3d::orbifold_graph")
    ctx.scan([b])
    ds = ("param", 1, b.debug.get(1, ""))
    import itertools
    arrays = []
    for bi, si, s in b.assigns():
        rv = s["rv"]
        if rv["k"] == "aggregate" and rv.get("agg") == "array":
            arrays.append(strip(norm(b.rv_origin(rv), g)))
    def lit(a):
        if a[0] == "agg" and a[1] in ("array", "tuple"):
            xs = [lit(x) for x in a[2]]
            return None if any(x is None for x in xs) else tuple(xs)
        return eval_int(a)
    lits = [lit(a) for a in arrays]
    pairs = [l for l in lits if l and all(isinstance(x, tuple) and len(x) == 2 and all(isinstance(y, int) for y in x) for x in l)]
    triples = [l for l in lits if l and all(isinstance(x, tuple) and len(x) == 3 and all(isinstance(y, int) for y in x) for x in l)]
    want2 = set(itertools.combinations(range(4), 2))
    want3 = set(itertools.combinations(range(4), 3))
    bad = None
    if len(pairs) != 1 or set(pairs[0]) != want2 or len(pairs[0]) != 6:
        bad = "the index pairs visited are %s, not all six ascending pairs of 0..=3" % (pairs[0] if pairs else None,)
    elif len(triples) != 1 or set(triples[0]) != want3 or len(triples[0]) != 4:
        bad = "the index triples visited are %s, not all four ascending triples of 0..=3" % (triples[0] if triples else None,)
    ctx.ob("T9-orbifold-graph", b.name, "index sets", "ok" if not bad else "violation", "6 pairs and 4 triples, each ascending (sub-orbit keys are looked up as ascending lists)" if not bad else bad)
    # phases
    reps = [(bi, [strip(norm(b.origin(a), g)) for a in t["args"]]) for bi, t in b.calls(exact="dsets::DSet::orbit_reps")]
    orbs = [(bi, [strip(norm(b.origin(a), g)) for a in t["args"]]) for bi, t in b.calls(exact="dsets::DSet::orbit")]
    subs = [(bi, [strip(norm(b.origin(a), g)) for a in t["args"]]) for bi, t in b.calls("delaney3d::suborbit_numbers")]
    ty1 = [(bi, [strip(norm(b.origin(a), g)) for a in t["args"]]) for bi, t in b.calls("delaney3d::orbit_type_1d")]
    sub3 = [(bi, [strip(norm(b.origin(a), g)) for a in t["args"]]) for bi, t in b.calls("derived::subsymbol")]
    bad = None

    def same_set(x, y):
        # orbit(..) does not depend on the order of its indices
        if x[0] == "agg" and y[0] == "agg" and x[1] == y[1] == "array":
            return sorted(map(repr, (strip(z) for z in x[2]))) == sorted(map(repr, (strip(z) for z in y[2])))
        return x == y
    if not (len(reps) == 2 and len(orbs) == 2 and len(subs) == 2 and len(ty1) == 1 and len(sub3) == 1):
        bad = "not two phases with orbit_reps / orbit / suborbit_numbers each (%d, %d, %d), one orbit_type_1d and one subsymbol" % (len(reps), len(orbs), len(subs))
    else:
        full = lambda r: is_call(r, "RangeInclusive::<Idx>::new") and eval_int(r[2][0]) == 1 and is_call(strip(r[2][1]), "::size")
        for k in (0, 1):
            I = reps[k][1][1]
            dterm = orbs[k][1][2]
            src = iter_source(b, dterm, g)
            if not (reps[k][1][0] == ds and full(reps[k][1][2])):
                bad = bad or "phase %d: representatives are not taken over all chambers 1..=size() of ds" % (k + 2)
            elif not (isinstance(src, tuple) and contains(norm(src, g), lambda y: is_call(y, "DSet::orbit_reps") and strip(y[2][1]) == I)):
                bad = bad or "phase %d: the orbit walked is not that of the representative" % (k + 2)
            elif not same_set(orbs[k][1][1], I) or subs[k][1][0] != I or subs[k][1][1] != dterm or subs[k][1][2] != ds:
                bad = bad or "phase %d: representatives, members and sub-orbit lookup do not use one index set and one chamber (%s / %s / %s)" % (k + 2, show(I, 1)[:30], show(orbs[k][1][1], 1)[:30], show(subs[k][1][0], 1)[:30])
        if not bad:
            I2 = reps[0][1][1]
            a = ty1[0][1]
            if not (I2[0] == "agg" and len(I2[2]) == 2 and a[0] == ds and (a[1], a[2]) == (strip(I2[2][0]), strip(I2[2][1])) and a[3] == orbs[0][1][2]):
                bad = "the type of a pair orbit is not orbit_type_1d(ds, i, j, d) for the phase's own (i, j) and representative"
            s3 = sub3[0][1]
            if not bad and not (s3[0] == ds and s3[1] == reps[1][1][1] and s3[2] == orbs[1][1][2]):
                bad = "the type of a triple orbit is not orbifold_symbol(subsymbol(ds, idcs, d)) for the phase's own idcs and representative"
        if not bad and not (reps[1][0] in b.fwd(reps[0][0]) and reps[0][0] not in b.fwd(reps[1][0])):
            bad = "the pair phase does not come before the triple phase (triple nodes are linked to pair nodes registered earlier)"
    mir = [bi for bi, t in b.calls("HashMap::<K, V, S>::insert") or b.calls("::insert")]
    r = strip(norm(b.local_origin(0), g))
    if not bad and not (is_call(r, "delaney3d::sort_nodes") and is_call(strip(r[2][0]), "delaney3d::compress_graph")):
        bad = "the result is not sort_nodes(compress_graph(..))"
    ctx.ob("T9-orbifold-graph", b.name, "phases", "ok" if not bad else "violation",
           "pairs then triples; one index set and representative per phase for type, members and sub-orbit links; sort_nodes(compress_graph(..))" if not bad else bad)
    # suborbit_numbers: for each k in idcs: the orbits under idcs minus k, met by the chambers of the idcs-orbit of d
    sb = ctx.body("delaney3d::suborbit_numbers")
    ctx.scan(ctx.facts.with_closures(sb.name))
    bad = None
    flt = list(sb.calls("Iterator::filter"))
    gets = list(sb.calls("HashMap::<K, V, S>::get")) or list(sb.calls("::get"))
    orb = list(sb.calls(exact="dsets::DSet::orbit"))
    if len(flt) != 1 or len(gets) != 1 or len(orb) != 1:
        bad = "not one filter / one orbit / one lookup"
    else:
        res = closure_result(ctx.facts, sb.origin(flt[0][1]["args"][1]), g)
        res = strip(res) if res is not None else None
        okf = res is not None and res[0] == "binop" and res[1] == "Ne"
        oa = [strip(norm(sb.origin(a), g)) for a in orb[0][1]["args"]]
        oko = oa[0] == ("param", 3, sb.debug.get(3, "")) and oa[2] == ("param", 2, sb.debug.get(2, ""))
        key = strip(norm(sb.origin(gets[0][1]["args"][1]), g))
        okk = key[0] == "agg" and key[1] == "tuple" and len(key[2]) == 2 and contains(key[2][0], lambda y: is_call(y, "Iterator::filter") or is_call(y, "Clone::clone"))
        el = strip(key[2][1]) if okk else None
        srcs = iter_source(sb, el, g) if okk else None
        okk = okk and isinstance(srcs, tuple) and contains(norm(srcs, g), lambda y: is_call(y, "DSet::orbit"))
        if not (okf and oko and okk):
            bad = "suborbit_numbers is not `for k in idcs: for e in ds.orbit(idcs, d): orbit_nr.get((idcs without k, e))` (filter i != k: %s, orbit(idcs, d) of ds: %s, key (subidcs, e): %s)" % (okf, oko, okk)
    ctx.ob("T9-orbifold-graph", sb.name, "sub-orbit lookup", "ok" if not bad else "violation",
           "for every k: the (idcs minus k)-orbits met by the chambers of the idcs-orbit of d" if not bad else bad)


def invariant_key(ctx, g):
    """orbifold_invariant(): the key looked up in the table is assembled as
    #labels / labels.. / orientation / #edges / #invariants / invariants.. / ""  with orientation "2" iff is_oriented(ds) (no mirrors AND
    two-colourable), "1" iff not oriented but weakly oriented, "0" otherwise - a loopless but non-orientable symbol (glide reflections
    only) must get "0"; the parts are pushed in this order"""
    ctx.clauses.append("invariant key: orientation flag 2/1/0 decided by is_oriented / is_weakly_oriented; parts in table order (T4)")
    b = ctx.body("euclidicity::orbifold_invariant")
    ctx.scan([b])
    ds = ("param", 1, b.debug.get(1, ""))
    ori = ("call", "dsets::DSet::is_oriented", (ds,))
    wk = ("call", "dsets::DSet::is_weakly_oriented", (ds,))
    want = {"2": {ori: True}, "1": {ori: False, wk: True}, "0": {ori: False, wk: False}}
    got = {}
    sites = [(bi, strip(norm(b.origin(t["args"][0]), g))) for bi, t in b.calls("ToString::to_string")]
    for bi, si, s_ in b.assigns():          # `let flag = if .. { "2" } ..; flag.to_string()`
        v = strip(norm(b.rv_origin(s_["rv"]), g))
        if v[0] == "str" and len(b.defs.get(s_["place"]["l"], [])) > 1:
            sites.append((bi, v))
    for bi, a in sites:
        if a[0] == "str" and a[1] in want and a[1] not in got:
            fa = {}
            for x in b.facts_at(bi):
                x = atom_norm(x, g)
                if x[0] == "bool" and x[1][0] == "call" and x[1][1].startswith("dsets::DSet::is_"):
                    fa[(x[1][0], x[1][1], tuple(strip(y) for y in x[1][2]))] = x[2]
            got[a[1]] = fa
    bad = []
    for k, w in want.items():
        if k not in got:
            bad.append("flag %r is never produced" % k)
        elif got[k] != w:
            bad.append("flag %r is produced under %s, not under %s" % (k, {kk[1].split("::")[-1]: v for kk, v in got[k].items()}, {kk[1].split("::")[-1]: v for kk, v in w.items()}))
    ctx.ob("T4-invariant-key", b.name, "orientation flag", "ok" if not bad else "violation",
           '"2" iff is_oriented, "1" iff weakly oriented only, "0" otherwise' if not bad else
           "; ".join(bad) + ": symbols without mirrors that are not orientable get a key that is not in the table")
    # order of the parts
    seq = []
    for bi, blk in b.live_blocks():
        t = blk["term"]
        if t["k"] != "call":
            continue
        n_ = t["callee"].get("def", "")
        if n_.endswith("Vec::<T, A>::push") or n_.endswith("Extend::extend"):
            v = norm(b.origin(t["args"][1]), g)
            v = norm(b.def_origin(v), g) if v[0] == "local" else v
            s_ = show(v, 1)
            kind = ("labels" if "orbifold_graph" in s_ and ".0" in s_ and "len(" not in s_ else "#edges" if "orbifold_graph" in s_ and ".1" in s_ else
                    "#invariants" if "len(abelian_invariants" in s_ else "invariants" if "abelian_invariants" in s_ else "end" if s_.startswith("to_string('')") else "flag")
            seq.append((bi, kind))
    order = [k for bi, k in sorted(seq, key=lambda x: (0 if b.dominates(x[0], x[0]) else 0, x[0]))]
    # blocks are numbered in program order for straight-line code; check with dominance
    okseq = [k for bi, k in seq if k != "flag"] == ["labels", "#edges", "#invariants", "invariants", "end"] and \
        all(b.dominates(seq[i][0], seq[i + 1][0]) for i in range(len(seq) - 1))
    ctx.ob("T4-invariant-key", b.name, "order of parts", "ok" if okseq else "violation",
           "labels, flag, #edges, #invariants, invariants, terminator are appended in table order" if okseq else "the parts of the key are appended as %s" % [k for bi, k in seq])


def aggregates(ctx, variant):
    out = []
    for b in ctx.facts.all_bodies():
        for bi, si, s in b.assigns():
            rv = s["rv"]
            if rv["k"] == "aggregate" and rv.get("agg") == "adt" and rv["adt"] == EU and rv["variant"] == variant:
                out.append((b, bi, si, s))
    return out


def yes_certificate(ctx, g):
    ctx.clauses.append("a yes verdict is backed by a certificate (T3 + T9)")
    ys = aggregates(ctx, "Yes")
    ctx.scan(ctx.facts.all_bodies())
    ctx.floor("constructions of Euclidean::Yes", len(ys), 1)
    for b, bi, si, s in ys:
        if b.name != "euclidicity::is_euclidean":
            ctx.ob("T9-yes-only-in-decision-procedure", b.name, "Euclidean::Yes", "violation", "a yes verdict is constructed outside is_euclidean (no certificate)", b.span_of(bi, si))
            continue
        me = ("param", 1, b.debug.get(1, ""))
        edges = [(norm(t, g), v) for e, (t, v) in b.dominating_edges(bi) if b.pred_valid(e, t, bi)]
        inv = any(t[0] == "call" and t[1].endswith("::contains") and t[2][0] == ("static", "euclidicity::INVARIANTS") and t[2][1] == ("call", "euclidicity::orbifold_invariant", (me,)) and v == ("ne", (0,)) for t, v in edges)
        cov_t = ("call", "delaney3d::pseudo_toroidal_cover", (me,))
        cov = any(t == ("discr", cov_t) and v == ("eq", 1) for t, v in edges)
        cov_v = ("field", ("variant", cov_t, "Some"), "0")
        simp_t = ("call", "simplify::simplify", (cov_v,))
        simp = any(t == ("discr", simp_t) and v == ("eq", 1) for t, v in edges)
        simp_v = ("field", ("variant", simp_t, "Some"), "0")
        key_t = ("call", "derived::canonical", (("call", "derived::minimal_image", (("call", "derived::canonical", (simp_v,)),)),))
        keylit = None
        keyok = False
        for t, v in edges:
            if t[0] == "call" and t[1].endswith("cmp::PartialEq::eq") and v == ("ne", (0,)):
                sides = list(t[2])
                strs = [x for x in sides if x[0] == "str"]
                oth = [x for x in sides if x[0] != "str"]
                if strs and oth and oth[0][0] == "call" and oth[0][1].endswith("ToString::to_string") and oth[0][2][0] == key_t:
                    keyok = True
                    keylit = strs[0][1]
        for name, ok, bad in (("INVARIANTS.contains(orbifold_invariant(ds))", inv, "the orbifold-invariant filter"),
                              ("pseudo_toroidal_cover(ds) is Some", cov, "existence of a pseudo-toroidal cover"),
                              ("simplify(&cov) is Some", simp, "successful simplification of that cover"),
                              ("canonical(minimal_image(canonical(simp))).to_string() == key", keyok, "comparison of the canonical minimal image of the simplified cover with the key")):
            ctx.ob("T3-yes-certificate", b.name, "Yes<-" + name, "ok" if ok else "violation",
                   "dominates the yes verdict, on the expected data chain" if ok else "a yes verdict can be produced without %s (on the data chain ds -> cov -> simp -> key)" % bad, b.span_of(bi, si))
        if keylit is not None:
            p = parse_dsym_text(keylit)
            cubic = p is not None and p[0] == 1 and p[1] == 3 and p[2] == [[1]] * 4 and p[3] == [[4], [3], [4]]
            ctx.ob("T4-key-literal", b.name, "key", "ok" if cubic else "violation",
                   "key literal %r is the one-chamber symbol with degrees 4,3,4 (cubic tiling)" % keylit if cubic else
                   "key literal %r is not the one-chamber cubic tiling <1.1:1 3:1,1,1,1:4,3,4>" % keylit, b.span_of(bi, si))


def verdict_sources(ctx, g):
    ctx.clauses.append("verdict values are only produced by the decision procedure (T9)")
    for variant, fn in (("No", "euclidicity::fail"), ("Maybe", "euclidicity::give_up")):
        ags = aggregates(ctx, variant)
        ctx.floor("constructions of Euclidean::" + variant, len(ags), 1)
        for b, bi, si, s in ags:
            ctx.ob("T9-verdict-constructor", b.name, "Euclidean::" + variant, "ok" if b.name == fn else "violation",
                   "built in " + fn if b.name == fn else "Euclidean::%s is constructed outside %s" % (variant, fn), b.span_of(bi, si))
        fb = ctx.body(fn)
        ctx.require("Public" not in fb.f.get("vis", ""), "T9-verdict-constructor", fn, "visibility", "private helper", fn + " is public: verdicts can be fabricated by callers")
        for b2, bi2, t2 in callers_of(ctx, fn):
            ctx.ob("T9-verdict-constructor", b2.name, "call:" + fn.split("::")[-1], "ok" if b2.name == "euclidicity::is_euclidean" else "violation",
                   "called from the decision procedure" if b2.name == "euclidicity::is_euclidean" else fn + " is called outside is_euclidean", b2.span_of(bi2))


def _zeros(t, n):
    t = strip(t)
    return t[0] == "agg" and t[1] == "array" and len(t[2]) == n and all(eval_int(x) == 0 for x in t[2])


def no_verdicts_justified(ctx, g):
    """every `no` of is_euclidean is taken on the failing side of the test that justifies it: the invariant key is NOT in the table, there is NO
    pseudo-toroidal cover, the cover does NOT simplify, a component IS bad, the abelian invariants are NOT [0, 0, 0], the group IS free, the
    subgroup count / the subgroup invariants ARE bad.  A `no` on the passing side of its own test answers no for euclidean symbols, which
    contradicts the yes that the same symbol gets in another numbering or through its cover."""
    ctx.clauses.append("every `no` verdict sits on the failing side of its justifying test (T3, immediate guard of every fail(..) site)")
    b = ctx.body("euclidicity::is_euclidean")
    def outcome(a):
        a = atom_norm(a, g)
        if a[0] == "bool":
            t = strip(a[1])
            if t[0] == "call":
                n = t[1].split("::")[-1]
                if n in ("contains", "is_connected", "bad_connected_components", "is_free", "bad_subgroup_count", "bad_subgroup_invariants"):
                    return (n, a[2])
                if n in ("ne", "eq") and any(is_call(strip(x), "abelian_invariants") for x in t[2]) and any(_zeros(x, 3) for x in t[2]):
                    return ("invariants are Z^3", a[2] if n == "eq" else not a[2])
                if n in ("ne", "eq"):
                    return ("other comparison", a[2])
        if a[0] in ("variant", "notvariant"):
            t = strip(a[1])
            if t[0] == "call" and t[1].split("::")[-1] in ("pseudo_toroidal_cover", "simplify"):
                some = (a[2] == 1) if a[0] == "variant" else (1 not in a[2])
                return (t[1].split("::")[-1] + " is Some", some)
        return None
    JUST = {("contains", False), ("pseudo_toroidal_cover is Some", False), ("simplify is Some", False), ("bad_connected_components", True),
            ("invariants are Z^3", False), ("is_free", True), ("bad_subgroup_count", True), ("bad_subgroup_invariants", True)}
    n = 0
    used = set()
    for bi, t in b.calls(exact="euclidicity::fail"):
        n += 1
        outs = [o for o in (outcome(a) for a in b.facts_at(bi)) if o is not None]
        last = outs[-1] if outs else None
        ok = last in JUST
        used.add(last)
        ctx.ob("T3-no-verdict-justified", b.name, "fail <- %s" % (last,), "ok" if ok else "violation",
               "the no verdict is taken where its test fails" if ok else
               "a no verdict is taken directly under %s, which does not speak against euclidicity (the test's passing side): euclidean symbols are answered no" % (last,), b.span_of(bi))
    ctx.floor("no verdicts in is_euclidean", n, 8)
    # bad_connected_components: decision table over its tests
    c = ctx.body("euclidicity::bad_connected_components")
    ctx.scan([c])
    seen = [("local", l, nm) for l, nm in c.debug.items() if c.local_ty(l) == "bool" and not c.is_stable_local(l)]
    bad = None
    if len(seen) != 1:
        bad = "no single `seen a Z^3 component` flag"
    else:
        def val(z3, triv, sn, bsi):
            def f(y):
                y = strip(y)
                if y == seen[0]:
                    return sn
                if is_call(y, "PartialEq::eq") and any(is_call(strip(x), "abelian_invariants") for x in y[2]):
                    if any(_zeros(x, 3) for x in y[2]):
                        return z3
                    if any(_zeros(x, 0) for x in y[2]):
                        return triv
                if is_call(y, "bad_subgroup_invariants"):
                    return bsi
                return None
            return f
        trues = {bi for bi, si, s_ in c.assigns() if s_["place"]["l"] == 0 and not s_["place"]["p"] and eval_int(strip(norm(c.rv_origin(s_["rv"]), g))) == 1}
        for z3, triv, sn, bsi, want in ((1, 0, 1, 0, True), (1, 0, 1, 1, True), (1, 0, 0, 1, True), (1, 0, 0, 0, False), (0, 1, 0, 1, True), (0, 1, 1, 1, True),
                                        (0, 1, 0, 0, False), (0, 1, 1, 0, False), (0, 0, 0, 0, True), (0, 0, 1, 0, True)):
            r = bool(reachable_sites(c, g, trues, val(z3, triv, sn, bsi)))
            if r != want and not bad:
                bad = "a component with invariants %s, %s Z^3 component seen before, subgroup test %s: the sum is %s" % (
                    "[0, 0, 0]" if z3 else "[]" if triv else "of another group", "a" if sn else "no", "bad" if bsi else "passed", "reported bad" if r else "not reported bad")
        # the flag is raised only on the Z^3 branch, and the two subgroup tests use (2, [0, 0, 0]) and (5, [])
        calls = []
        for bi, t in c.calls(exact="euclidicity::bad_subgroup_invariants"):
            idx = eval_int(strip(norm(c.origin(t["args"][1]), g)))
            lit = vec_literal(c, c.origin(t["args"][2]))
            z = any(a[0] == "bool" and a[2] and is_call(strip(a[1]), "PartialEq::eq") and any(_zeros(x, 3) for x in strip(a[1])[2]) for a in (atom_norm(x, g) for x in c.facts_at(bi)))
            calls.append((z, idx, None if lit is None else [eval_int(strip(norm(x, g))) for x in lit]))
        if not bad and sorted(calls, key=str) != sorted([(True, 2, [0, 0, 0]), (False, 5, [])], key=str):
            bad = "the subgroup tests are not (index 2, [0, 0, 0]) for a Z^3 component and (index 5, []) for a trivial one: %s" % (calls,)
        sets = [(dbb, eval_int(strip(norm(d, g)))) for dbb, d in c.all_defs_origins(seen[0][1])]
        if not bad and sorted(v for _, v in sets) != [0, 1]:
            bad = "the Z^3 flag is not `false`, then `true`"
        for dbb, v in sets:
            if v == 1 and not bad:
                fa = [atom_norm(x, g) for x in c.facts_at(dbb)]
                if not any(a[0] == "bool" and a[2] and is_call(strip(a[1]), "PartialEq::eq") and any(_zeros(x, 3) for x in strip(a[1])[2]) for a in fa):
                    bad = "the Z^3 flag is raised for a component whose invariants are not [0, 0, 0]"
    ctx.ob("T4-connected-sum-table", c.name, "bad iff second Z^3 / bad subgroups / other group", "ok" if not bad else "violation",
           "bad exactly for: a second Z^3 component, a Z^3 or trivial component failing its subgroup test, a component with any other invariants" if not bad else bad)


def graph_labels(ctx, g):
    """the orbifold graph is looked up by its text in a table that was produced with exactly these labels, so the parts must agree with each
    other: orbit_type_1d answers `1*` for a branch-free orbit on a mirror and `1` for a branch-free orbit off the mirrors (decided as a table
    over (on mirror, v)); orbifold_graph labels mirror chambers with the same `1*`, creates a node for a pair / triple exactly when its label
    is not that `1`, rewrites `*423` to `*432`; valid_edge keeps an edge exactly when its ends differ and the target is not a `1*` node unless
    the source is a three-letter mirror label; compress_graph merges exactly equal-labelled neighbours, keeps the class roots, and both
    renumbering closures keep the direction (v, w) of an edge."""
    ctx.clauses.append("orbifold graph labels and edge filter agree with each other and keep edge direction (T4, tables evaluated)")
    ot = ctx.body(M + "orbit_type_1d")
    bad = None
    lits = {}
    for bi, t in ot.calls("ToString::to_string"):
        a = strip(norm(ot.origin(t["args"][0]), g))
        if a[0] == "str":
            lits[bi] = a[1]
    fmts = [bi for bi, t in ot.calls("fmt::format")]
    v_t = None
    for bi, t in ot.calls("Option::<T>::unwrap"):
        a = strip(norm(ot.origin(t["args"][0]), g))
        if is_call(a, "DSym::v"):
            v_t = ("call", t["callee"]["def"], (a,))
    anyc = [("call", t["callee"]["def"], tuple(strip(norm(ot.origin(x), g)) for x in t["args"])) for bi, t in ot.calls("Iterator::any")]
    if v_t is None or len(anyc) != 1 or len(lits) != 2:
        bad = "orbit_type_1d: branching number, mirror test or the two literal labels not found"
    else:
        def val(mir, v):
            def f(y):
                y = strip(y)
                if is_call(y, "Option::<T>::unwrap") and is_call(strip(y[2][0]), "DSym::v"):
                    return v
                if is_call(y, "Iterator::any"):
                    return mir
                return None
            return f
        table = {}
        for mir in (0, 1):
            for v in (1, 2, 3):
                reached = sorted(lits[bi] for bi in reachable_sites(ot, g, set(lits), val(mir, v)))
                table[(mir, v)] = reached
        m1, p1 = table[(1, 1)], table[(0, 1)]
        if len(m1) != 1 or len(p1) != 1 or m1 == p1:
            bad = "orbit_type_1d does not answer one fixed label for v = 1 on a mirror and another one off the mirrors: %s" % table
        elif any(table[(mir, v)] for mir in (0, 1) for v in (2, 3)):
            bad = "orbit_type_1d answers a fixed label for an orbit with branching number > 1"
        else:
            MIR, PLAIN = m1[0], p1[0]
            og = ctx.body(M + "orbifold_graph")
            pushed = [strip(norm(og.origin(t["args"][0]), g)) for bi, t in og.calls("ToString::to_string")]
            pushed = [x[1] for x in pushed if x[0] == "str"]
            if MIR not in pushed:
                bad = "orbifold_graph labels mirror chambers %s, orbit_type_1d labels mirror orbits %r" % (pushed, MIR)
            # a mirror node for every (i, d) with op(i, d) == Some(d), i over all four operations 0..=3, d over all chambers
            for bi, t in og.calls("ToString::to_string"):
                if strip(norm(og.origin(t["args"][0]), g)) != ("str", MIR) or bad:
                    continue
                fa = [atom_norm(x, g) for x in og.facts_at(bi)]
                fixed = None
                for x in fa:
                    if x[0] == "bool" and x[2] and is_call(strip(x[1]), "PartialEq::eq"):
                        l_, r_ = [strip(z) for z in strip(x[1])[2]]
                        for u, v in ((l_, r_), (r_, l_)):
                            if is_call(u, "DSet::op") and v[0] == "agg" and v[1].endswith("Option::Some") and strip(v[2][0]) == strip(u[2][2]):
                                fixed = u
                    if x[0] == "rel" and x[1] == "Eq":
                        for u, v in ((strip(x[2]), strip(x[3])), (strip(x[3]), strip(x[2]))):
                            if is_call(u, "DSet::op") and v[0] == "agg" and v[1].endswith("Option::Some") and strip(v[2][0]) == strip(u[2][2]):
                                fixed = u
                if fixed is None:
                    bad = "a mirror node is not created exactly under op(i, d) == Some(d)"
                else:
                    ri, rd = loop_range_of_payload(og, fixed[2][1], g), loop_range_of_payload(og, fixed[2][2], g)
                    oki = ri is not None and eval_int(ri[0]) == 0 and eval_int(ri[1]) is not None and eval_int(ri[1]) + (1 if ri[2] else 0) == 4
                    okd = rd is not None and eval_int(rd[0]) == 1 and rd[2] and (is_call(strip(rd[1]), "::size") or (strip(rd[1])[0] == "field" and strip(rd[1])[2] == "size"))
                    if not (oki and okd):
                        bad = "mirror nodes are not searched over all four operations 0..=3 and all chambers 1..=size(): %s, %s" % (
                            ri and (show(ri[0], 1), show(ri[1], 1), ri[2]), rd and (show(rd[0], 1), show(rd[1], 1)[:20], rd[2]))
            # node creation: under ne(t, PLAIN) true
            tests = []
            for bi, t in og.calls():
                n = t["callee"].get("def", "")
                if n.endswith("PartialEq::ne") or n.endswith("PartialEq::eq"):
                    a = [strip(norm(og.origin(x), g)) for x in t["args"]]
                    sl = [x[1] for x in a if x[0] == "str"]
                    if sl:
                        tests.append((bi, n.split("::")[-1], sl[0], t))
            skip = [x for x in tests if x[2] == PLAIN]
            fix = [x for x in tests if x[2] not in (PLAIN, MIR)]
            if not bad and len(skip) != 2:
                bad = "orbifold_graph does not test the labels of pairs and triples against %r (tests: %s)" % (PLAIN, [(x[1], x[2]) for x in tests])
            elif not bad:
                for bi, t in og.calls("Vec::<T, A>::push"):
                    a = [strip(norm(og.origin(x), g)) for x in t["args"]]
                    if is_call(a[1], "orbit_type_1d") or contains(a[1], lambda y: is_call(y, "orbifold_symbol")):
                        fa = [atom_norm(x, g) for x in og.facts_at(bi)]
                        okp = any(x[0] == "bool" and is_call(strip(x[1]), "PartialEq::ne") == x[2] and (is_call(strip(x[1]), "PartialEq::ne") or is_call(strip(x[1]), "PartialEq::eq")) and
                                  any(strip(z) == ("str", PLAIN) for z in strip(x[1])[2]) for x in fa)
                        if not okp:
                            bad = bad or "a node is created for a pair / triple without its label being different from %r" % PLAIN
            if not bad and (len(fix) != 1 or fix[0][2] != "*423"):
                bad = "the `*423` normalisation is missing"
            elif not bad:
                fb, fop, _, ft = fix[0]
                repl = [bi for bi, t in og.calls("ToString::to_string") if strip(norm(og.origin(t["args"][0]), g)) == ("str", "*432")]
                if len(repl) != 1:
                    bad = "`*423` is not rewritten to `*432`"
                else:
                    def valf(e):
                        def f(y):
                            y = strip(y)
                            if (is_call(y, "PartialEq::eq") or is_call(y, "PartialEq::ne")) and any(strip(z) == ("str", "*423") for z in y[2]):
                                return e if is_call(y, "PartialEq::eq") else 1 - e
                            return None
                        return f
                    lp = loop_containing(og, repl[0])
                    for e in (0, 1):
                        r = bool(reachable_sites(og, g, {repl[0]}, valf(e), start=lp[1] if lp else 0))
                        if r != bool(e):
                            bad = bad or "a label that %s `*423` is %s to `*432`" % ("is" if e else "is not", "rewritten" if r else "not rewritten")
            # valid_edge
            ve = ctx.body(M + "valid_edge")
            ctx.scan([ve])
            def valv(same, tw_mir, len3, star):
                def f(y):
                    y = strip(y)
                    if y[0] == "field" and strip(y[1]) == ("param", 1, ve.debug.get(1, "")):
                        return 5 if same else (5 if str(y[2]) == "0" else 6)
                    if is_call(y, "PartialEq::ne") and any(strip(z) == ("str", MIR) for z in y[2]):
                        return 1 - tw_mir
                    if is_call(y, "PartialEq::eq") and any(strip(z) == ("str", MIR) for z in y[2]):
                        return tw_mir
                    if is_call(y, "String::len") or is_call(y, "str>::len"):
                        return 3 if len3 else 2
                    if is_call(y, "starts_with"):
                        return star
                    return None
                return f
            if not bad:
                for same in (0, 1):
                    for tw_mir in (0, 1):
                        for len3 in (0, 1):
                            for star in (0, 1):
                                got = bool_results(ve, g, valv(same, tw_mir, len3, star))
                                want = (not same) and ((not tw_mir) or (len3 and star))
                                if got != {bool(want)} and not bad:
                                    bad = "valid_edge: ends %s, target %s a %r node, source label %s three letters and %s with `*`: the edge is %s" % (
                                        "equal" if same else "different", "is" if tw_mir else "is not", MIR, "of" if len3 else "not of", "starting" if star else "not starting",
                                        "kept" if got == {True} else "dropped" if got == {False} else "undetermined %s" % sorted(got, key=str))
                # which end is which: tv is types[edge.0], tw is types[edge.1]; the `1*` test is on the target, len / starts_with on the source
                def end_of(t_):
                    ix = [y for y in subterms(t_) if is_call(y, "Index::index")]
                    return str(strip(ix[0][2][1])[2]) if ix and strip(ix[0][2][1])[0] == "field" else None
                ends = {}
                for bi, t in ve.calls():
                    n = t["callee"].get("def", "").split("::")[-1]
                    if n in ("ne", "eq", "len", "starts_with"):
                        ends[n] = end_of(strip(norm(ve.origin(t["args"][0]), g)))
                if not bad and not ({ends.get("ne", ends.get("eq"))} == {"1"} and ends.get("len") == "0" and ends.get("starts_with") == "0"):
                    bad = "valid_edge tests the wrong end of the edge: the %r test must look at the target (edge.1), length and `*` at the source (edge.0): %s" % (MIR, ends)
    # compress_graph / sort_nodes
    cg = ctx.body(M + "compress_graph")
    ctx.scan([cg])
    if not bad:
        for bi, t in cg.calls("::unite"):
            fa = [atom_norm(x, g) for x in cg.facts_at(bi)]
            a = [strip(norm(cg.origin(x), g)) for x in t["args"]]
            okq = any(x[0] == "bool" and (is_call(strip(x[1]), "PartialEq::eq") == x[2]) and (is_call(strip(x[1]), "PartialEq::eq") or is_call(strip(x[1]), "PartialEq::ne")) and
                      all(is_call(strip(z), "Index::index") for z in strip(x[1])[2]) and {strip(strip(z)[2][1]) for z in strip(x[1])[2]} == {a[1], a[2]} for x in fa)
            if not okq:
                bad = "compress_graph merges two neighbours without their labels being equal"
        for bi, t in cg.calls("Vec::<T, A>::push"):
            fa = [atom_norm(x, g) for x in cg.facts_at(bi)]
            okr = any(x[0] == "rel" and x[1] == "Eq" and any(is_call(strip(z), "::find") for z in x[2:4]) and
                      any(strip(z) == strip([w for w in x[2:4] if is_call(strip(w), "::find")][0])[2][1] for z in x[2:4] if not is_call(strip(z), "::find")) for x in fa)
            if not okr and not bad:
                bad = "compress_graph keeps a node that is not the root of its class (p.find(i) == i)"
    for fn in ("compress_graph", "sort_nodes"):
        okd = False
        for c in ctx.facts.closures.get(M + fn, []):
            r = strip(norm(ctx.facts.bodies[c].local_origin(0), g))
            if r[0] == "agg" and r[1] == "tuple" and len(r[2]) == 2 and all(is_call(strip(z), "Index::index") for z in r[2]):
                comps = [strip(strip(z)[2][1]) for z in r[2]]
                okd = [str(x[2]) if x[0] == "field" else None for x in comps] == ["0", "1"]
        if not okd and not bad:
            bad = "%s renumbers an edge (v, w) into (new[w], new[v]) or otherwise changes its direction" % fn
    ctx.ob("T4-graph-labels", M + "orbifold_graph", "labels / node creation / edge filter / direction", "ok" if not bad else "violation",
           "`1*` / `1` agree between orbit_type_1d, orbifold_graph and valid_edge; nodes iff label != `1`; *423 -> *432; valid_edge table; equal-label merge; direction kept" if not bad else bad)


def fallback_constants(ctx, g):
    ctx.clauses.append("the fallback tests compare with the subgroup data of Z^3 (T4)")
    n = 0
    for b, bi, t in callers_of(ctx, "euclidicity::bad_subgroup_count"):
        a = [norm(b.origin(x), g) for x in t["args"]]
        n += 1
        ok = a[1][0] == "int" and a[2][0] == "int" and Z3_SUBGROUP_COUNTS.get(a[1][1]) == a[2][1]
        ctx.ob("T4-z3-subgroup-count", b.name, "bad_subgroup_count(fg, %s, %s)" % (show(a[1], 1), show(a[2], 1)), "ok" if ok else "violation",
               "Z^3 has %s subgroups of index <= %s" % (show(a[2], 1), show(a[1], 1)) if ok else
               "(%s, %s) is not a cumulative subgroup count of Z^3 %s: euclidean covers would be rejected / non-euclidean ones pass" % (show(a[1], 1), show(a[2], 1), Z3_SUBGROUP_COUNTS), b.span_of(bi))
    ctx.floor("bad_subgroup_count calls", n, 1)
    bc = ctx.body("euclidicity::bad_subgroup_count")
    r = norm(bc.local_origin(0), g)
    exp = ("param", 3, bc.debug.get(3, ""))
    ok = r[0] == "binop" and r[1] == "Ne" and exp in (r[2], r[3]) and contains(r, lambda s: isinstance(s, tuple) and s and s[0] == "call" and s[1].endswith("Iterator::count"))
    # the cap is evaluated: it must lie strictly above `expected` (take(expected) or less can never see a surplus table, take(expected - 1) never reaches the count)
    takes = [s_ for s_ in subterms(r) if isinstance(s_, tuple) and s_ and s_[0] == "call" and s_[1].endswith("Iterator::take")]
    take_ok = len(takes) == 1 and all((eval_term_env(unov_deep(strip(takes[0][2][1])), {exp: k}) or 0) > k for k in (1, 8, 21))
    ctx.require(ok and take_ok, "T4-z3-subgroup-count", bc.name, "count != expected", "returns take(expected + 1).count() != expected",
                "bad_subgroup_count does not compare the (capped above expected) number of tables with `expected`: " + show(r, 1)[:100])
    b = ctx.body("euclidicity::is_euclidean")
    m = 0
    for bi, t in b.calls(exact="euclidicity::bad_subgroup_invariants"):
        a1 = norm(b.origin(t["args"][1]), g)
        lit = vec_literal(b, b.origin(t["args"][2]))
        m += 1
        ok = a1 == ("int", 2) and lit is not None and [norm(x, g) for x in lit] == [("int", 0)] * 3
        ctx.ob("T4-z3-invariants", b.name, "bad_subgroup_invariants(fg, 2, [0,0,0])", "ok" if ok else "violation",
               "index-2 subgroups are compared with Z^3" if ok else "index-2 subgroups of the cover are compared with %s, not with [0, 0, 0]" % (lit and [show(norm(x, g), 1) for x in lit],), b.span_of(bi))
    ctx.floor("bad_subgroup_invariants calls in is_euclidean", m, 1)
    bsi = ctx.body("euclidicity::bad_subgroup_invariants")
    for bi, t in bsi.calls(exact="fpgroups::stabilizer::stabilizer"):
        every_iteration_reaches(ctx, "T3-no-skipped-subgroup", bsi, bi, "table-loop->stabilizer", "some subgroup of the given index is not examined: a non-euclidean cover can pass the fallback test")
    trues = [bi for bi, si, s in bsi.assigns() if s["place"]["l"] == 0 and norm(bsi.rv_origin(s["rv"]), g) == ("int", 0)]
    okf = bool(trues) and all(any(a[0] == "variant" and a[2] == 0 and is_call(a[1], "Iterator::next") for a in bsi.facts_at(bi)) for bi in trues)
    # `bad` is answered exactly for a subgroup whose invariants DIFFER from the expected ones
    bads = [bi for bi, si, s_ in bsi.assigns() if s_["place"]["l"] == 0 and eval_int(strip(norm(bsi.rv_origin(s_["rv"]), g))) == 1]
    exp_p = ("param", 3, bsi.debug.get(3, ""))
    def differs(a):
        a = atom_norm(a, g)
        if a[0] != "bool" or not (is_call(strip(a[1]), "PartialEq::ne") or is_call(strip(a[1]), "PartialEq::eq")):
            return False
        args = [strip(z) for z in strip(a[1])[2]]
        if not (any(is_call(z, "abelian_invariants") for z in args) and exp_p in args):
            return False
        return a[2] == is_call(strip(a[1]), "PartialEq::ne")
    okb = bool(bads) and all(any(differs(a) for a in bsi.facts_at(bi)) for bi in bads)
    ctx.require(okb, "T3-no-skipped-subgroup", bsi.name, "return true <- invariants != expected", "`bad` exactly for a subgroup whose abelian invariants differ from the expected ones",
                "bad_subgroup_invariants answers `bad` for a subgroup whose invariants EQUAL the expected ones (or without comparing them): every euclidean cover fails the fallback test")
    ctx.require(okf, "T3-no-skipped-subgroup", bsi.name, "return false", "`not bad` only after every subgroup was examined", "bad_subgroup_invariants can return false before all subgroups were examined")
    # invars != [0,0,0] on the connected path: a comparison of abelian_invariants(..) with a 3-zero array dominates the fallback chain
    okc = False
    for bi, t in b.calls():
        n_ = t["callee"].get("def", "")
        if n_.endswith("cmp::PartialEq::ne") or n_.endswith("cmp::PartialEq::eq"):
            a = [norm(b.origin(x), g) for x in t["args"]]
            if any(x[0] == "call" and x[1].endswith("abelian_invariants") for x in a):
                other = [x for x in a if not (x[0] == "call" and x[1].endswith("abelian_invariants"))]
                if other and other[0][0] == "agg" and other[0][2] == (("int", 0),) * 3:
                    okc = True
                elif other:
                    p = b.origin([x for x in t["args"]][1])
                    pr = strip(p)
                    if pr[0] == "agg" and tuple(norm(x, g) for x in pr[2]) == (("int", 0),) * 3:
                        okc = True
    ctx.ob("T4-z3-invariants", b.name, "invars != [0,0,0]", "ok" if okc else "violation",
           "the connected path compares the abelian invariants of the simplified cover with [0, 0, 0]" if okc else
           "no comparison of abelian_invariants(..) with [0, 0, 0] on the connected path")


def data_table(ctx, g):
    ctx.clauses.append("the invariant table agrees with its reader (T4)")
    path = os.path.join(ctx.facts.root or build.REPO, "src", "data", "euclideanInvariants.data")
    if not os.path.exists(path):
        raise AnchorMissing(path)
    toks = open(path).read().split()
    entries = [t for t in toks if t.endswith("/") and not t.startswith("#")]
    bad = []
    noncanon = []
    for t in entries:
        p = t.split("/")
        ok = p[-1] == ""
        p = p[:-1]
        try:
            n = int(p[0])
            labels = p[1:1 + n]
            rest = p[1 + n:]
            o, e, k = int(rest[0]), int(rest[1]), int(rest[2])
            invs = [int(x) for x in rest[3:]]
            ok = ok and len(labels) == n and all(re.fullmatch(r"[0-9*x]+", l) for l in labels) and o in (0, 1, 2) and len(invs) == k and invs == sorted(invs) and e >= 0
            ok = ok and labels == sorted(labels)
            # canonical form of abelian_invariants: no 1s, non-zero factors form a divisibility chain
            nz = [x for x in invs if x != 0]
            if ok and (1 in invs or any(nz[i + 1] % nz[i] != 0 for i in range(len(nz) - 1))):
                noncanon.append(t)
        except (ValueError, IndexError):
            ok = False
        if not ok:
            bad.append(t)
    ctx.ob("T4-data-format", "src/data/euclideanInvariants.data", "tokens", "ok" if not bad else "violation",
           "all %d '/'-terminated tokens parse as n/t1..tn/o/e/k/i1..ik/" % len(entries) if not bad else
           "%d table entries do not parse in the format orbifold_invariant emits, e.g. %s: such an entry can never match" % (len(bad), bad[:3]))
    for t in noncanon:
        ctx.ob("T4-data-canonical-invariants", "src/data/euclideanInvariants.data", t, "violation",
               "the abelian invariants of this table entry are not in the canonical form abelian_invariants() emits (no 1s, each non-zero factor divides the next): "
               "no symbol can ever produce this string, so every symbol of that space group is answered 'no' (orbifold invariants do not match) although its covers/quotients are 'yes'")
    if not noncanon:
        ctx.ob("T4-data-canonical-invariants", "src/data/euclideanInvariants.data", "all entries", "ok", "every entry's invariants are in invariant-factor form (divisibility chain, no 1s)")
    ctx.floor("entries of the invariant table", len(entries), 219)
    ctx.floor("distinct entries of the invariant table", len(set(entries)), 212)
    # non-entries can never be equal to an invariant (they do not end in '/')
    # reader: parts.join("/") with a trailing "" part
    oi = ctx.body("euclidicity::orbifold_invariant")
    ctx.scan([oi])
    r = norm(oi.local_origin(0), g)
    okj = r[0] == "call" and r[1].endswith("::join") and any(x == ("str", "/") for x in r[2])
    ctx.require(okj, "T4-data-format", oi.name, "join('/')", "invariant string = parts.join(\"/\")", "orbifold_invariant no longer joins its parts with '/': " + show(r, 1)[:80])
    # last push is the empty string (trailing '/')
    pushes = [(bi, norm(oi.origin(t["args"][1]), g)) for bi, t in oi.calls("Vec::<T, A>::push")]
    last_empty = any(contains(v, lambda s: s == ("str", "")) for bi, v in pushes)
    ctx.require(last_empty, "T4-data-format", oi.name, "trailing-empty-part", "a trailing empty part gives the final '/'", "the invariant string no longer ends in '/': no table entry can match")
    strs = set(str_consts_in(oi))
    ctx.require({"0", "1", "2"} <= strs, "T4-data-format", oi.name, "orientation-codes", "orientation codes 0/1/2", "orientation codes are not {0,1,2}: %s" % sorted(strs))
