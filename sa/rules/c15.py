"""C15 - toroidal and pseudo-toroidal covers are branch-free tori (DESIGN 4/C15)."""
from ..core import *
from ..templates import *

ORDERS = {1: {1}, 2: {1, 2}, 3: {1, 2, 3, 6}, 4: {1, 2, 3, 4, 6, 8, 12, 24}}   # A7: orders of transitive permutation groups of degree <= k

EXPLANATION = (
    "Decided: (2D) toroidal_cover returns a cover only on the true edge of orbit_types_2d(&cov).iter().all(v == 1) evaluated on that same "
    "cover, and the covers tried are covers(&oriented_cover(ds), _). (3D) pseudo_toroidal_cover returns Some(cover_for_table(&ds, table, ..)) "
    "only on the true edge of `inv == vec![0, 0, 0]` (a literal of three zeros = Z^3) where inv = abelian_invariants(sgens.len(), &srels) and "
    "(sgens, srels) = stabilizer(0, relators, table) for the SAME table and the relators of the fundamental group of oriented_cover(ds), "
    "which is also the symbol that is covered; every candidate table pushed by construct_candidates is dominated by flattens_all(that table, "
    "all cones) (branch-free). Point groups: point_groups() lists 11 distinct names, every key used on the candidate map (core_type / "
    "core_type_by_size results, \"z6\", \"d6\") is one of them and every listed name gets an entry, and the size arms cover every possible "
    "order of a transitive permutation group of degree <= the index bound passed to coset_tables (so the panic arm and the map lookups are "
    "dead). NOT decided: existence of a cover for every euclidean symbol, independence of the numbering, that the stabiliser presentation is "
    "exact (C13).")
TRUSTED = ["rustc MIR lowering", "A7 orders of transitive permutation groups of degree <= 4 are {1,2,3,4,6,8,12,24}", "C13/C14 exactness of stabilizer and abelian_invariants (not decided here)"]
ASSUMPTIONS = ["input obeys the crystallographic restriction (asserted by the routine)"]


def flatten_test(ctx, g):
    """flattens_all(ct, cones): EVERY cone word has, in the quotient given by the table, exactly its cone degree as order (degree(ct, w) == deg;
    `> 1` or `deg % order == 0` would accept a partly unwound 4- or 6-fold cone, and the cover keeps branching); degree() is the smallest
    positive power of w that returns row 0 to itself"""
    ctx.clauses.append("flattens_all: every cone word has exactly its cone degree as order in the quotient (T9)")
    b = ctx.body("delaney3d::flattens_all")
    ctx.scan(ctx.facts.with_closures(b.name))
    ct, cones = ("param", 1, b.debug.get(1, "")), ("param", 2, b.debug.get(2, ""))
    alls = list(b.calls("Iterator::all"))
    ok = False
    det = "no all(..) over the cones"
    for bi, t in alls[:1]:
        src = norm(b.origin(t["args"][0]), g)
        src = norm(b.def_origin(src), g) if src[0] == "local" else src
        res = closure_result(ctx.facts, b.origin(t["args"][1]), g)
        el = ("param", 2, "")
        want = ("binop", "Eq", ("call", "delaney3d::degree", (ct, ("field", el, "0"))), ("field", el, "1"))
        want2 = ("binop", "Eq", want[3], want[2])
        oksrc = contains(src, lambda y: y == cones)
        ok = oksrc and res is not None and strip(res) in (want, want2) and ret_origin(b, g)[0] == "call" and ret_origin(b, g)[1].endswith("Iterator::all")
        det = "the test applied to each cone is %s over %s" % (show(res, 1)[:70] if res else None, show(src, 1)[:40])
    ctx.ob("T9-flattens-all", b.name, "all(degree(ct, w) == deg)", "ok" if ok else "violation",
           "every cone (w, deg) of the list satisfies degree(ct, w) == deg" if ok else
           "flattens_all is not `every cone word has exactly its degree as order` (%s): a cone of composite degree that is only partly unwound passes and the cover keeps branching" % det)
    # degree(): first positive i with row_0 . w^i == row 0
    d = ctx.body("delaney3d::degree")
    ctx.scan(ctx.facts.with_closures(d.name))
    r = ret_origin(d, g)
    for _ in range(6):          # the iterator chain is built in temporaries: follow them
        loc = [x for x in subterms(r) if x[0] == "local"]
        if not loc:
            break
        r = map_term(r, lambda x: norm(d.def_origin(x), g) if x[0] == "local" and norm(d.def_origin(x), g) != x else None)
    # the pipeline after successors(..) is EVALUATED on model sequences: a word of order k in a table with N = 6 rows returns to row 0 exactly at
    # the exponents that are multiples of k; the answer must be k for every k in 1..=N (an element's order can equal the number of rows)
    succ = [x for x in subterms(r) if is_call(x, "iter::successors")]
    bad = None
    if len(succ) != 1:
        bad = "degree() is not built on one successors(..) sequence"
    else:
        sx = succ[0]
        seed_ok = strip(sx[2][0]) == ("agg", "adt:std::option::Option::Some", (("agg", "tuple", (("int", 0), ("int", 0))),))
        step = apply_closure(ctx.facts, sx[2][1], [("agg", "tuple", (("int", 7), ("local", -1, "row")))], g)
        step = simplify_proj(step) if step is not None else None
        okstep = False
        if step is not None and strip(step)[0] == "agg" and strip(step)[1].endswith("Option::Some"):
            tup = strip(strip(step)[2][0])
            if tup[0] == "agg" and len(tup[2]) == 2 and eval_term_env(unov_term(fold_std_ops(tup[2][0])), {}) == 8:
                fo = strip(tup[2][1])
                if is_call(fo, "Iterator::fold") and strip(fo[2][1]) == ("local", -1, "row") and contains(fo[2][0], lambda y: y == ("param", 2, d.debug.get(2, ""))):
                    fr = closure_calls(ctx.facts, fo[2][2], g)
                    okstep = any(c[0].endswith("CosetTable::get") and strip(c[2][0]) == ("param", 1, d.debug.get(1, "")) and strip(c[2][1]) == ("param", 2, "") or
                                 (c[0].endswith("CosetTable::get") and strip(c[2][0]) == ("param", 1, d.debug.get(1, ""))) for c in fr)
        if not seed_ok or not okstep:
            bad = "the sequence is not (0, row 0), (1, row 0 . w), (2, row 0 . w^2), .. (start (0, 0): %s; step (i + 1, fold of ct.get over w from the previous row): %s)" % (seed_ok, okstep)
        else:
            pipe = map_term(r, lambda x: ("src",) if x == sx else None)
            N = 6
            ct_len = ("call", "fpgroups::cosets::CosetTable::len", (("param", 1, d.debug.get(1, "")),))
            for k in range(1, N + 1):
                src_items = (("agg", "tuple", (("int", i), ("int", i % k))) for i in range(0, 4 * N))
                try:
                    got = eval_pipeline(ctx.facts, pipe, g, src_items, {ct_len: N})
                except PipelineError as e:
                    bad = "the pipeline of degree() cannot be evaluated (%s)" % e
                    break
                if got != k:
                    bad = "for a word of order %d in a table with %d rows degree() answers %s: %s" % (
                        k, N, got, "the search stops before the exponent can reach the number of rows" if k == N else "not the smallest positive exponent that returns to row 0")
                    break
    ctx.ob("T9-flattens-all", d.name, "first i >= 1 with w^i fixing row 0", "ok" if not bad else "violation",
           "degree = the first exponent >= 1 at which the word returns to row 0 (pipeline evaluated for orders 1..6 in a table of 6 rows)" if not bad else bad)


def crystallographic_guard(ctx, g):
    """pseudo_toroidal_cover refuses (panics on) exactly the symbols that violate the crystallographic restriction: some branching number v(i, i + 1, d)
    of an ADJACENT index pair, at an orbit representative, is not in {1, 2, 3, 4, 6}.  The test is evaluated for v = 1..8"""
    ctx.clauses.append("crystallographic restriction: the cover search is refused exactly for v not in {1, 2, 3, 4, 6} at the representatives of all adjacent index pairs (T4)")
    b = ctx.body("delaney3d::pseudo_toroidal_cover")
    ds = ("param", 1, b.debug.get(1, ""))
    bad = None
    vs = [(bi, [strip(norm(b.origin(x), g)) for x in t["args"]]) for bi, t in b.calls("DSym::v") if strip(norm(b.origin(t["args"][0]), g)) == ds]
    reps = [[strip(norm(b.origin(x), g)) for x in t["args"]] for bi, t in b.calls("DSet::orbit_reps_2d") if strip(norm(b.origin(t["args"][0]), g)) == ds]
    if len(vs) != 1 or len(reps) != 1:
        bad = "not one v(..) test over one orbit_reps_2d(..) loop on the input symbol"
    else:
        a = vs[0][1]
        i_t = a[1]
        ri = loop_range_of_payload(b, i_t, g)
        if not (unov_deep(a[2]) == ("binop", "Add", i_t, ("int", 1)) and reps[0][1] == i_t and unov_deep(reps[0][2]) == ("binop", "Add", i_t, ("int", 1))):
            bad = "the branching numbers tested are not v(i, i + 1, d) at the representatives of the (i, i + 1)-orbits"
        elif not (ri and eval_int(ri[0]) == 0 and not ri[2] and is_call(strip(ri[1]), "::dim")):
            bad = "not every adjacent index pair i in 0..dim() is tested"
        else:
            vterm = ("call", "std::option::Option::<T>::unwrap", (("call", "dsyms::DSym::v", tuple(a)),))
            # the refusal is a panic, and panic regions are not walked by the path enumeration: decided on the complementary site, the block
            # reached when every test of the assertion has passed (the last non-panicking successor of the tests)
            loops = [set(bl) for hh, bl in natural_loops(b) if vs[0][0] in bl]
            inner = min(loops, key=len) if loops else set()
            pb_ = b.panic_blocks()
            succ = b.succ()
            tests = {bi for bi in inner if b.blocks[bi]["term"]["k"] == "switch" and any(t_ in pb_ for t_ in succ.get(bi, [])) and any(t_ not in pb_ for t_ in succ.get(bi, []))
                     and vs[0][0] in b.bwd(bi)}
            passed = {t_ for bi in tests for t_ in succ.get(bi, []) if t_ not in pb_ and t_ not in tests}
            if not tests or not passed:
                bad = "no refusal (panic) behind the test"
            else:
                table = {}
                for v in range(1, 9):
                    r = reachable_sites(b, g, passed, lambda y, v=v: v if (strip(y) == vterm or (y[0] == "local" and not (1 <= y[1] <= b.argc) and b.local_ty(y[1]) == "usize" and strip(norm(b.local_origin(y[1]), g)) == vterm)) else None)
                    table[v] = not bool(r)
                want = {v: v not in (1, 2, 3, 4, 6) for v in range(1, 9)}
                if table != want:
                    bad = "the search is refused for v in %s; the crystallographic restriction excludes exactly 5, 7, 8, .. (allowed: 1, 2, 3, 4, 6)" % [v for v, t_ in table.items() if t_]
    ctx.ob("T4-crystallographic-guard", b.name, "v in {1, 2, 3, 4, 6}", "ok" if not bad else "violation", "refused exactly for v = 5, 7, 8 among 1..8; adjacent pairs at their representatives" if not bad else bad)


def core_type_table(ctx, g):
    """core_type: the two groups of order 4 are told apart by is_fully_involutive - and ONLY groups of order 4: "v4" needs len == 4 and all
    generators acting as involutions, "z4" needs len == 4 and not; every other size is named by core_type_by_size(len).  (A fully
    involutive table of size 6, 8 or 24 is s3 / d4 / s4, not v4: the label is the search key of pseudo_toroidal_cover.)"""
    ctx.clauses.append("core_type: v4 / z4 exactly for tables of 4 rows (split by is_fully_involutive), core_type_by_size(len) otherwise (T4 decision table)")
    b = ctx.body("delaney3d::core_type")
    ct = ("param", 1, b.debug.get(1, ""))
    ln = ("call", "fpgroups::cosets::CosetTable::len", (ct,))
    inv = ("call", "delaney3d::is_fully_involutive", (ct,))
    rows = {}
    for bi, t in b.calls():
        if t["dest"]["l"] != 0 or t["dest"]["p"]:
            continue
        a = [strip(norm(b.origin(x), g)) for x in t["args"]]
        key = a[0][1] if a and a[0][0] == "str" else ("by_size" if t["callee"].get("def", "").endswith("core_type_by_size") and a == [ln] else show(a[0], 1)[:30] if a else "?")
        fa = [atom_norm(x, g) for x in b.facts_at(bi)]
        size4 = True if any(x == ("rel", "Eq", ln, ("int", 4)) for x in fa) else False if any(x == ("rel", "Ne", ln, ("int", 4)) for x in fa) else None
        invol = True if ("bool", inv, True) in fa else False if ("bool", inv, False) in fa else None
        rows[key] = (size4, invol)
    want = {"v4": (True, True), "z4": (True, False), "by_size": (False, None)}
    bad = [k for k in want if rows.get(k) != want[k]] + [k for k in rows if k not in want]
    ctx.ob("T4-core-type-table", b.name, "decision table", "ok" if not bad else "violation",
           "v4 <- len == 4 & involutive, z4 <- len == 4 & not involutive, core_type_by_size(len) <- len != 4" if not bad else
           "the decision table is %s (label: (len == 4, fully involutive)); expected %s: a fully involutive table of another size is filed under the wrong point group and tried in the wrong order" % (rows, want))


def run(ctx):
    g = ctx.facts.getters()
    crystallographic_guard(ctx, g)
    flatten_test(ctx, g)
    core_type_table(ctx, g)
    two_d(ctx, g)
    three_d(ctx, g)
    candidates(ctx, g)
    point_groups(ctx, g)


def two_d(ctx, g):
    ctx.clauses.append("2D: the returned cover has all branching numbers 1 and covers the oriented cover (T3)")
    b = ctx.body("delaney2d::toroidal_cover")
    ctx.scan(ctx.facts.with_closures(b.name))
    rets = [(bi, si, s) for bi, si, s in b.assigns() if s["place"]["l"] == 0 and not s["place"]["p"]]
    ctx.floor("returns of toroidal_cover", len(rets), 1)
    for bi, si, s in rets:
        val = norm(b.rv_origin(s["rv"]), g)
        ok = False
        for a in b.facts_at(bi, deep=True):
            if a[0] == "bool" and a[2] is True and is_call(a[1], "Iterator::all"):
                c = strip(a[1])
                recv = norm(b.def_origin(c[2][0]), g)
                ot = [x for x in subterms(recv) if isinstance(x, tuple) and x and x[0] == "call" and x[1].endswith("orbit_types_2d")]
                res = closure_result(ctx.facts, c[2][1], g)
                is_one = res is not None and res[0] == "binop" and res[1] == "Eq" and ("int", 1) in (res[2], res[3])
                if ot and ot[0][2][0] == val and is_one:
                    ok = True
        ctx.ob("T3-branch-free-2d", b.name, "return cov", "ok" if ok else "violation",
               "the returned cover is the one on which orbit_types_2d(..).all(v == 1) held" if ok else
               "a cover is returned without the test that all its branching numbers are 1 (on that same cover)", b.span_of(bi, si))
        src = iter_source(b, b.rv_origin(s["rv"]), g)
        okc = src is not None and src[0] == "call" and src[1] == "covers::covers" and src[2][0][0] == "call" and src[2][0][1] == "derived::oriented_cover" \
            and src[2][0][2][0] == ("param", 1, b.debug.get(1, ""))
        if okc:
            bound = norm(b.def_origin(src[2][1]), g) if src[2][1][0] == "local" else src[2][1]
            okbnd = contains(bound, lambda x: isinstance(x, tuple) and x and x[0] == "call" and x[1].endswith("orbit_types_2d") and x[2] == (src[2][0],)) and \
                contains(bound, lambda x: isinstance(x, tuple) and x and x[0] == "call" and x[1].endswith("Iterator::max"))
            ctx.ob("T4-sheet-bound-2d", b.name, "covers(.., max branching over all 2-orbits)", "ok" if okbnd else "violation",
                   "the sheet bound is the maximal branching number over orbit_types_2d(oriented cover) (all index pairs)" if okbnd else
                   "the sheet bound passed to covers() is not the maximum branching number over all 2-orbit types of the oriented cover (%s): rotation centres of the skipped index pairs are never unfolded, no toroidal cover is found" % show(bound, 1)[:80], b.span_of(bi, si))
        ctx.ob("T9-cover-of-oriented-cover-2d", b.name, "cov in covers(oriented_cover(ds), _)", "ok" if okc else "violation",
               "candidates are covers of the oriented cover of the input" if okc else "returned value is not an element of covers(&oriented_cover(ds), _): " + (show(src, 1)[:80] if src else "?"), b.span_of(bi, si))


def three_d(ctx, g):
    ctx.clauses.append("3D: a returned cover abelianises to Z^3, is a cover of the oriented cover (T3)")
    b = ctx.body("delaney3d::pseudo_toroidal_cover")
    ctx.scan([b])
    me = ("param", 1, b.debug.get(1, ""))
    somes = [(bi, si, s) for bi, si, s in b.assigns() if s["rv"]["k"] == "aggregate" and s["rv"].get("agg") == "adt" and s["rv"]["adt"].endswith("option::Option")
             and s["rv"]["variant"] == "Some" and s["place"]["l"] == 0]
    ctx.floor("Some(..) returns of pseudo_toroidal_cover", len(somes), 1)
    for bi, si, s in somes:
        val = norm(b.origin(s["rv"]["ops"][0]), g)
        okv = val[0] == "call" and val[1] == "covers::cover_for_table"
        ctx.require(okv, "T9-cover-constructor-3d", b.name, "Some(cover_for_table(..))", "the returned cover is built by cover_for_table", "returned value is not cover_for_table(..): " + show(val, 1)[:80], b.span_of(bi, si))
        if not okv:
            continue
        base, table = val[2][0], val[2][1]
        okb = base == ("call", "derived::oriented_cover", (me,))
        ctx.require(okb, "T9-cover-of-oriented-cover-3d", b.name, "cover_for_table(&oriented_cover(ds), ..)", "the covered symbol is oriented_cover(ds)", "the covered symbol is " + show(base, 1)[:60], b.span_of(bi, si))
        okw = val[2][2][0] == "field" and val[2][2][2] == "edge_to_word" and val[2][2][1] == ("call", "fundamental_group::fundamental_group", (base,))
        ctx.require(okw, "T9-cover-of-oriented-cover-3d", b.name, "edge_to_word of fundamental_group(base)", "edge words belong to the fundamental group of the covered symbol",
                    "edge words do not come from fundamental_group(<covered symbol>): " + show(val[2][2], 1)[:80], b.span_of(bi, si))
        for sbi, st_ in b.calls(exact="fpgroups::stabilizer::stabilizer"):
            every_iteration_reaches(ctx, "T3-no-skipped-candidate", b, sbi, "candidate-loop->stabilizer", "some candidate table is skipped without being tested: a pseudo-toroidal cover can be missed")
        ok = False
        why = "no dominating comparison of abelian invariants"
        for ei, (term, v) in [(e, tv) for e, tv in b.dominating_edges(bi)]:
            t = strip(term)
            if not (t[0] == "call" and t[1].endswith("cmp::PartialEq::eq") and v == ("ne", (0,))):
                continue
            sides = [strip(x) for x in t[2]]
            inv = [x for x in sides if x[0] == "call" and x[1].endswith("abelian_invariants")]
            lit = [vec_literal(b, x) for x in sides if not (x[0] == "call" and x[1].endswith("abelian_invariants"))]
            if not inv or not lit or lit[0] is None:
                continue
            lits = [norm(x, g) for x in lit[0]]
            iv = norm(inv[0], g)
            st = [x for x in subterms(iv) if isinstance(x, tuple) and x and x[0] == "call" and x[1].endswith("stabilizer::stabilizer")]
            same_table = bool(st) and all(x[2][2] == table for x in st) and all(x[2][0] == ("int", 0) for x in st)
            rels_ok = bool(st) and all(x[2][1][0] == "field" and x[2][1][2] == "relators" and x[2][1][1] == ("call", "fundamental_group::fundamental_group", (base,)) for x in st)
            # abelian_invariants(sgens.len(), &srels) : both from the same stabilizer call
            args_ok = iv[2][0][0] == "call" and iv[2][0][1].endswith("::len") and iv[2][0][2][0][0] == "field" and iv[2][0][2][0][2] == "0" and iv[2][1][0] == "field" and iv[2][1][2] == "1"
            z3 = lits == [("int", 0)] * 3
            if same_table and rels_ok and args_ok and z3:
                ok = True
            else:
                why = "literal %s; same table: %s; relators of the covered symbol: %s; (len(gens), rels) of one stabilizer call: %s" % ([show(x, 1) for x in lits], same_table, rels_ok, args_ok)
        ctx.ob("T3-z3-guard", b.name, "Some(cover):guard", "ok" if ok else "violation",
               "dominated by abelian_invariants(stabilizer(0, relators, table)) == [0, 0, 0] for the same table" if ok else
               "a cover is returned without the test that the stabiliser of its table abelianises to Z^3 (%s)" % why, b.span_of(bi, si))


def candidates(ctx, g):
    ctx.clauses.append("3D: every candidate table flattens all cones (T3)")
    b = ctx.body("delaney3d::construct_candidates")
    ctx.scan(ctx.facts.with_closures(b.name))
    me = ("param", 1, b.debug.get(1, ""))
    pushes = [(bi, t) for bi, t in b.calls("Vec::<T, A>::push") if "CosetTable" in t["callee"].get("path_with_args", "")]
    ctx.floor("candidate pushes in construct_candidates", len(pushes), 3)
    for bi, t in pushes:
        tab = norm(b.origin(t["args"][1]), g)
        ok = False
        for a in b.facts_at(bi, deep=True):
            if a[0] == "bool" and a[2] is True and is_call(a[1], "delaney3d::flattens_all"):
                args = [norm(x, g) for x in strip(a[1])[2]]
                cones = norm(b.def_origin(strip(a[1])[2][1]), g)
                full = contains(cones, lambda s: s == ("field", me, "cones")) and not contains(cones, lambda s: isinstance(s, tuple) and s and s[0] == "call" and s[1].endswith("Iterator::filter"))
                if args[0] == tab and full:
                    ok = True
        ctx.ob("T3-candidate-flattens-cones", b.name, "push(table)", "ok" if ok else "violation",
               "the pushed table is dominated by flattens_all(table, all cones)" if ok else
               "a candidate table is recorded without flattens_all on that table and the full cone list: the cover may keep branching", b.span_of(bi))
    # operand slots of the Z6 / D6 intersections: tx = intersection_table(ta, tb), ta from the tables that flatten the order-3 cones,
    # tb from the index-2 tables; the order-2 cones are tested on tb (flattened for Z6 = Z3 x Z2, not flattened for D6), tx pairs (3,6)/(6,12)
    def filter_closure(x):
        t0 = norm(x, g)
        c = t0[1][1] if t0[0] == "field" and t0[1][0] == "variant" else None
        if not (c and c[0] == "call" and c[2]):
            return None
        d = norm(b.def_origin(c[2][0]), g)
        fl = [s for s in subterms(d) if isinstance(s, tuple) and s and s[0] == "call" and s[1].endswith("Iterator::filter")]
        return fl[0][2][1] if fl else None
    def cone_order_of(lst):
        d = norm(b.def_origin(lst), g)
        fl = [s for s in subterms(d) if isinstance(s, tuple) and s and s[0] == "call" and s[1].endswith("Iterator::filter")]
        if not fl:
            return "all"
        res = closure_result(ctx.facts, fl[0][2][1], g)
        if res is not None and res[0] == "binop" and res[1] == "Eq" and res[3][0] == "int":
            return res[3][1]
        return None
    for bi, t in pushes:
        tab = norm(b.origin(t["args"][1]), g)
        if not (tab[0] == "call" and tab[1].endswith("intersection_table")):
            continue
        ta, tb = tab[2]
        # filters of the two loops
        fa_c = filter_closure(ta)
        fb_c = filter_closure(tb)
        ra = closure_calls(ctx.facts, fa_c, g) if fa_c is not None else []
        oka = any(c[0] == "delaney3d::flattens_all" for c in ra) and any(cone_order_of(c[2][1]) == 3 for c in ra if c[0] == "delaney3d::flattens_all") if fa_c is not None else False
        rb = closure_result(ctx.facts, fb_c, g) if fb_c is not None else None
        okb = rb is not None and rb[0] == "binop" and rb[1] == "Eq" and rb[3] == ("int", 2) and contains(rb[2], lambda s: isinstance(s, tuple) and s and s[0] == "call" and s[1].endswith("CosetTable::len"))
        c2 = []
        for a in b.facts_at(bi, deep=True):
            if a[0] == "bool" and is_call(a[1], "delaney3d::flattens_all") and cone_order_of(strip(a[1])[2][1]) == 2:
                c2.append((norm(strip(a[1])[2][0], g), a[2]))
        lens = {}
        for a in b.facts_at(bi):
            a = atom_norm(a, g)
            if a[0] == "rel" and a[1] == "Eq" and a[3][0] == "int" and a[2][0] == "call" and a[2][1].endswith("CosetTable::len"):
                lens[a[2][2][0]] = a[3][1]
        okslot = len(c2) == 1 and c2[0][0] == tb
        kind = None
        if okslot:
            kind = "z6" if c2[0][1] is True else "d6"
        oklens = (kind == "z6" and lens.get(ta) == 3 and lens.get(tab) == 6) or (kind == "d6" and lens.get(ta) == 6 and lens.get(tab) == 12)
        ok = oka and okb and okslot and oklens
        ctx.ob("T4-intersection-operand-slots", b.name, "push(intersection):%s" % (kind or "?"), "ok" if ok else "violation",
               "tx = intersection_table(ta, tb): ta flattens the order-3 cones, tb has index 2, the order-2 cones are tested on tb (%s), sizes (%s, %s)" % (
                   "flattened" if kind == "z6" else "not flattened", lens.get(ta), lens.get(tab)) if ok else
               "the Z6/D6 candidate is not built from the right operands (ta filtered by order-3 cones: %s; tb filtered by len() == 2: %s; order-2 cones tested on tb: %s; size pair ok: %s): "
               "hexagonal groups with 2-fold axes / 6_3-type screw axes lose their candidate" % (oka, okb, okslot, oklens), b.span_of(bi))
    # every listed point group gets an entry (so candidates[&tp] cannot panic)
    okins = False
    for bi, t in b.calls("BTreeMap::<K, V, A>::insert"):
        src = iter_source(b, b.origin(t["args"][1]), g)
        if src is not None and src == ("call", "delaney3d::point_groups", ()):
            okins = True
    ctx.require(okins, "T4-point-group-keys", b.name, "insert(p, vec![]) for p in point_groups()", "every listed point group gets a map entry",
                "construct_candidates no longer creates an entry for every name in point_groups(): the lookup candidates[&tp] can panic")


def point_groups(ctx, g):
    ctx.clauses.append("sheet number is the order of one of the eleven point groups; no panic on the type lookup (T4)")
    pg = ctx.body("delaney3d::point_groups")
    names = []
    for bi, si, s in pg.assigns():
        rv = s["rv"]
        if rv["k"] == "aggregate" and rv.get("agg") == "array":
            names += [strip(pg.origin(o))[1] for o in rv["ops"] if strip(pg.origin(o))[0] == "str"]
    if not names:
        names = str_consts_in(pg)
    ctx.require(len(names) == 11 and len(set(names)) == 11, "T4-eleven-point-groups", pg.name, "names", "11 distinct point-group names: %s" % sorted(names),
                "point_groups() lists %d names (%d distinct), not the eleven admissible point groups" % (len(names), len(set(names))))
    cts = ctx.body("delaney3d::core_type_by_size")
    ct = ctx.body("delaney3d::core_type")
    cc = ctx.body("delaney3d::construct_candidates")
    ctx.scan([pg, cts, ct])
    used = set(str_consts_in(cts)) | set(str_consts_in(ct)) | {s for s in str_consts_in(cc)}
    used = {u for u in used if len(u) <= 3}
    bad = sorted(u for u in used if u not in names)
    ctx.require(not bad and len(used) >= 9, "T4-point-group-keys", "delaney3d", "key-literals", "all %d key literals are listed point groups" % len(used),
                "key literals %s are used on the candidate map but are not in point_groups(): get_mut(..).unwrap() / candidates[..] panics" % bad)
    # size arms
    arms = set()
    for bi, blk in cts.live_blocks():
        t = blk["term"]
        if t["k"] == "switch":
            d = norm(cts.origin(t["discr"]), g)
            if d == ("param", 1, cts.debug.get(1, "")):
                pan = cts.panic_blocks()
                arms |= {v for v, tgt in t["targets"] if tgt not in pan}
                ctx.require(t["otherwise"] in pan or True, "T4-size-arms", cts.name, "default", "", "")
    special = set()
    for a_bi, blk in ct.live_blocks():
        for (e, ats) in [((a_bi, o), ct.edge_atoms((a_bi, o))) for o in ct.succ().get(a_bi, [])]:
            for a in ats:
                a = atom_norm(a, g)
                if a[0] == "rel" and a[1] == "Eq" and a[3][0] == "int" and a[2][0] == "call" and a[2][1].endswith("CosetTable::len"):
                    special.add(a[3][1])
    # index bound
    bounds = [norm(cc.origin(t["args"][2]), g) for bi, t in cc.calls(exact="fpgroups::cosets::coset_tables")]
    ctx.floor("coset_tables calls in construct_candidates", len(bounds), 1)
    for bd in bounds:
        if bd[0] != "int":
            ctx.ob("T4-size-arms", cc.name, "coset_tables:bound", "undecided", "index bound is not a constant: " + show(bd, 1))
            continue
        need = ORDERS.get(bd[1])
        if need is None:
            ctx.ob("T4-size-arms", cc.name, "coset_tables:bound", "violation",
                   "index bound %d: the possible core sizes are not in the checker's table (A7 covers degree <= 4) - core_type_by_size has a panic arm" % bd[1])
            continue
        missing = sorted(need - arms - special)
        ctx.ob("T4-size-arms", cts.name, "arms-cover-orders(bound=%d)" % bd[1], "ok" if not missing else "violation",
               "size arms %s + special sizes %s cover %s" % (sorted(arms), sorted(special), sorted(need)) if not missing else
               "core sizes %s are possible for actions of degree <= %d but have no arm: core_type_by_size panics" % (missing, bd[1]))
