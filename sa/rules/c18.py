"""C18 - exact linear algebra: residue-class canonicity, modulus, pivot precondition, solve guards (DESIGN 4/C18)."""
import re
from ..core import *
from ..templates import *
from ..t5 import T5
from .. import intervals as iv

PRC = "geometry::prime_residue_classes::PrimeResidueClass"
TWINS = ["geometry::vec_matrix::RowEchelonVecMatrix::<T>::new", "geometry::matrix::RowEchelonMatrix::<T, N, M>::new"]
SOLVES = ["geometry::vec_matrix::VecMatrix::<T>::solve", "geometry::matrix::Matrix::<T, N, M>::solve"]

EXPLANATION = (
    "Decided: (1) canonical residues: the only constructions of PrimeResidueClass{value} in the crate are the From<i64>/From<i32> impls and the "
    "derived Clone; an interval evaluation of the stored value on every path, with bounds linear in the symbolic modulus P >= 2, gives value in "
    "[0, P-1] (so every integer input, negative multiples of P included, gets the canonical representative, and every arithmetic operator, which "
    "goes through .into(), does too). (2) every modulus with which the type is instantiated in non-test code is a prime with (P-1)^2 <= i64::MAX "
    "and 2P <= i64::MAX, so + - * cannot overflow on canonical values. (3) pivot precondition: Entry::pivot_row and clear_col read a[(row, col)] "
    "unconditionally (derived from the impl bodies); in both row-echelon constructors every such use of the running row counter, `cols[row] = "
    "col` and `row + 1` are dominated by a still-valid upper bound on the counter, so no matrix shape (wide full-rank, tall) can drive the pivot "
    "search past the last row. (4) in both `solve` twins every division is dominated by can_divide on the same operands and Some(result) is only "
    "built after the residual rows were tested to be zero. Also decided (rounds 3-5): gcdx satisfies the extended-Euclid contract (induction on "
    "sampled states) and the integer elimination step is a determinant-(+1) row operation that clears the column and is applied identically to "
    "the multiplier (expressions evaluated on sampled gcdx outputs), so row-swap counting gives the exact determinant sign; the two row-echelon "
    "twins agree structurally. Also decided (round 7): the residue class operators hand the integer operation of the same name on the stored values to "
    ".into() (expressions evaluated), / is * inverse(); inverse() is the extended Euclid on (P, value) (invariant t*value = r mod P by induction on sampled states, simultaneous "
    "update, exit at r1 == 0, r == 1 asserted); the dense matrix primitives + - * transpose of VecMatrix and Matrix have the textbook element formulas over full ranges; rational_reconstruction keeps u1 = sign*s*v1, u = -sign*s*v (mod h) and stops at u1^2 <= h; "
    "the p-adic lifting round of modular_solver::solve preserves a*s + p*b (update expressions evaluated on scalar samples with x any solution of a*x = b mod P), "
    "updates the modulus after the solution, and every entry is reconstructed from (s[i][j], p). NOT decided: exact determinant values in general, null-space dimension, completeness of solve, that the number of lifting rounds suffices (Hadamard bound: only its operands are checked), overflow.")
TRUSTED = ["rustc MIR lowering (dev profile)", "A2 i64::rem_euclid(x, P) lies in [0, P-1] for P > 0", "A7 primality by trial division in the checker",
           "weak criterion for the pivot bound: an upper bound on the row counter dominates; equality with the row count is read off the guard term"]
ASSUMPTIONS = ["PrimeResidueClass<P> is only instantiated with P >= 2 (checked for every concrete instantiation found in non-test code)"]


def is_prime(n):
    if n < 2:
        return False
    i = 2
    while i * i <= n:
        if n % i == 0:
            return False
        i += 1
    return True


def run(ctx):
    g = ctx.facts.getters()
    elim = [ctx.facts.bodies[d] for d in sorted(ctx.facts.bodies) if ("geometry::traits::Entry" in d or "impl geometry::traits::Entry for" in d) and "{closure" not in d] + \
        [ctx.body(t) for t in TWINS] + [ctx.body(s) for s in SOLVES]
    ctx.scan(elim)
    k = no_stale_elements(ctx, "T3-no-stale-element", elim, g)
    ctx.floor("elimination routines scanned for stale element reads", k, 12)
    ctx.clauses.append("the VecMatrix and const-generic Matrix routines are sibling implementations and agree in loop/call structure (T4 cross-check)")
    IGN = ("nr_rows", "nr_columns", "from_elem", "index", "index_mut", "assert_failed", "new", "identity", "zero", "len", "box_assume_init_into_vec_unsafe", "new_uninit", "transpose", "submatrix")
    for a_, b_ in ((TWINS[0], TWINS[1]), (SOLVES[0], SOLVES[1]),
                   ("geometry::vec_matrix::VecMatrix::<T>::determinant", "geometry::matrix::Matrix::<T, N, N>::determinant"),
                   ("geometry::vec_matrix::VecMatrix::<T>::null_space", "geometry::matrix::Matrix::<T, N, M>::null_space")):
        siblings_agree(ctx, "T4-siblings-agree", a_, b_, "VecMatrix ~ Matrix", ignore=IGN, ignore_stores=True)
    siblings_agree(ctx, "T4-siblings-agree", "<num_rational::Ratio<num_bigint::BigInt> as geometry::traits::Entry>::clear_col",
                   "geometry::modular_solver::<impl geometry::traits::Entry for geometry::prime_residue_classes::PrimeResidueClass<P>>::clear_col", "field clear_col ~ field clear_col")
    i64_row_step(ctx, g)
    closed_form_determinants(ctx, g)
    determinant_sign(ctx, g)
    echelon_driver(ctx, g)
    padic_driver(ctx, g)
    ctx.clauses.append("gcdx is extended Euclid: r*A + s*B = +-gcd, t*A + u*B = 0, r*u - s*t = +-1 for every input (loop invariant decided on sampled states)")
    gx = ctx.body("geometry::traits::gcdx")
    ctx.scan([gx])
    euclid_contract(ctx, "T7-euclid-contract", gx, g)
    padic_steps(ctx, g)
    residue_operators(ctx, g)
    modular_inverse(ctx, g)
    matrix_ops(ctx, g)
    rational_reconstruction_contract(ctx, g)
    padic_lifting(ctx, g)
    residues(ctx)
    modulus(ctx)
    pivot(ctx)
    solve_guards(ctx)


PRCP = "geometry::prime_residue_classes::PrimeResidueClass<P>"


def residue_operators(ctx, g):
    """+ - * and unary - of residue classes compute the integer operation of the same name on the two stored values and reduce the result through
    From<i64> (.into()); / multiplies by the modular inverse of the right operand.  The operand expressions are EVALUATED on small values."""
    ctx.clauses.append("residue class operators: value(a op b) = (value(a) op value(b)).into() with the operator of the same name; a / b = a * b.inverse() (T4, evaluated)")
    import operator
    OPS = {"Add": operator.add, "Sub": operator.sub, "Mul": operator.mul}
    n = 0
    for d, b in sorted(ctx.facts.bodies.items()):
        if "{closure" in d or "PrimeResidueClass<P>" not in d or " as std::ops::" not in d:
            continue
        tr = d.split(" as std::ops::")[1].split("<")[0].split(">")[0]
        if tr not in ("Add", "Sub", "Mul", "Div", "Neg"):
            continue
        n += 1
        ctx.scan([b])
        ret = strip(norm(b.local_origin(0), g))
        a_, b_ = ("param", 1, b.debug.get(1, "")), ("param", 2, b.debug.get(2, ""))
        va, vb = ("field", a_, "value"), ("field", b_, "value")
        bad = None
        if tr == "Div":
            ok = is_call(ret, "Mul::mul") and strip(ret[2][0]) == a_ and is_call(strip(ret[2][1]), "PrimeResidueClass::<P>::inverse") and strip(strip(ret[2][1])[2][0]) == b_
            bad = None if ok else "a / b is not a * b.inverse(): %s" % show(ret, 1)[:60]
        else:
            if not is_call(ret, "Into::into"):
                bad = "the result is not reduced through .into(): %s" % show(ret, 1)[:60]
            else:
                ex = unov_term(fold_std_ops(strip(ret[2][0])))
                for x, y in ((0, 0), (1, 6), (6, 1), (5, 3), (3, 5), (2, 2)):
                    got = eval_term_env(ex, {va: x, vb: y})
                    want = -x if tr == "Neg" else OPS[tr](x, y)
                    if got != want:
                        bad = "for stored values %d and %d the integer handed to .into() is %s, not %d (%s)" % (x, y, got, want, tr)
                        break
        ctx.ob("T4-residue-operators", d, tr, "ok" if not bad else "violation", "integer %s of the stored values, reduced by From<i64>" % tr if not bad and tr != "Div" else (bad or "a * b.inverse()"))
    ctx.floor("residue class operator impls", n, 14)
    # From<i64>: the stored value is n.rem_euclid(P)
    fb = ctx.body("<%s as std::convert::From<i64>>::from" % PRCP)
    ret = strip(norm(fb.local_origin(0), g))
    ok = ret[0] == "agg" and len(ret[2]) == 1 and is_call(strip(ret[2][0]), "rem_euclid") and strip(strip(ret[2][0])[2][0]) == ("param", 1, fb.debug.get(1, "")) and strip(strip(ret[2][0])[2][1])[0] == "tyconst"
    ctx.ob("T4-residue-operators", fb.name, "value: n.rem_euclid(P)", "ok" if ok else "violation",
           "the canonical representative is n.rem_euclid(P)" if ok else "From<i64> does not store n.rem_euclid(P): %s" % show(ret, 1)[:60])


def modular_inverse(ctx, g):
    """PrimeResidueClass::inverse is the extended Euclid on (P, value): with the invariant t * value = r and t1 * value = r1 (mod P) the loop
    ends with r = gcd(P, value) = 1 and t the inverse.  Decided by induction on sampled states (update expressions evaluated, not executed)"""
    import random
    ctx.clauses.append("modular inverse: extended Euclid on (P, value) keeps t * value = r, t1 * value = r1 (mod P), shifts r := r1, shrinks r1, ends at r1 == 0, asserts r == 1 and answers t (T7, induction on sampled states)")
    b = ctx.body("geometry::prime_residue_classes::PrimeResidueClass::<P>::inverse")
    ctx.scan([b])
    names = {v: k for k, v in b.debug.items()}
    me = ("param", 1, b.debug.get(1, ""))
    P_ = None
    try:
        t, t1, r, r1 = [("local", names[x], x) for x in ("t", "t1", "r", "r1")]
    except KeyError:
        # names are not part of the contract: recover the four carried variables from the result and the loop
        t = strip(norm(b.local_origin(0), g))
        t = strip(t[2][0]) if is_call(t, "Into::into") else t
        raise AnchorMissing("inverse(): carried variables t, t1, r, r1")
    loops = natural_loops(b)
    lb = set()
    for h_, bl_ in loops:
        lb |= set(bl_)
    defs = {}
    for x in (t, t1, r, r1):
        ds = [(dbb, norm(d, g)) for dbb, d in b.all_defs_origins(x[1])]
        defs[x] = ([d for dbb, d in ds if dbb not in lb], [d for dbb, d in ds if dbb in lb])
    bad = None
    if not all(len(defs[x][0]) == 1 and len(defs[x][1]) == 1 for x in defs):
        bad = "t, t1, r, r1 are not each initialised once and updated once per iteration"
    ret = strip(norm(b.local_origin(0), g))
    if not bad and not (is_call(ret, "Into::into") and strip(ret[2][0]) == t):
        bad = "the result is not t.into(): %s" % show(ret, 1)[:40]
    carried = (t, t1, r, r1)

    def expand(tm, depth=0):
        def f(x):
            if x[0] == "local" and x not in carried and depth < 6:
                ds = b.all_defs_origins(x[1])
                if len(ds) == 1:
                    return expand(norm(ds[0][1], g), depth + 1)
            return None
        return map_term(tm, f)
    n = 0
    if not bad:
        pt = [x for x in subterms(defs[r][0][0]) if isinstance(x, tuple) and x and x[0] == "tyconst"]
        P_ = pt[0] if pt else None
        val = ("field", me, "value")
        init = [eval_term_env(fold_std_ops(expand(defs[x][0][0])), {P_: 61, val: 17}) if P_ else None for x in carried]
        if init != [0, 1, 61, 17]:
            bad = "for P = 61 and value 17 the initial state (t, t1, r, r1) is %s, not (0, 1, 61, 17)" % init
    if not bad:
        late = overwritten_reads(b, lb, carried)
        if late:
            nm = lambda l: b.debug.get(l, "_%d" % l)
            bad = "the new value of %s is computed from %s after %s has been overwritten in the same iteration (%s)" % (nm(late[0][0]), nm(late[0][1]), nm(late[0][1]), late[0][2])
    if not bad:
        upd = [unov_term(fold_std_ops(expand(defs[x][1][0]))) for x in carried]
        rnd = random.Random(11)
        for _ in range(400):
            P = rnd.choice((7, 61, 97))
            v = rnd.randint(1, P - 1)
            tv, t1v = rnd.randint(-30, 30), rnd.randint(-30, 30)
            rv, r1v = tv * v + rnd.randint(-3, 3) * P, t1v * v + rnd.randint(-3, 3) * P
            if r1v == 0:
                continue
            new = [eval_term_env(e, dict(zip(carried, (tv, t1v, rv, r1v)))) for e in upd]
            if any(x is None for x in new):
                bad = "the update expressions cannot be evaluated: %s" % [show(e, 1)[:40] for e, x in zip(upd, new) if x is None][:1]
                break
            nt, nt1, nr, nr1 = new
            n += 1
            st = "(t, t1, r, r1) = %s with P = %d, value = %d" % ((tv, t1v, rv, r1v), P, v)
            if (nt * v - nr) % P or (nt1 * v - nr1) % P:
                bad = "the step does not keep t * value = r, t1 * value = r1 (mod P): from %s it yields %s" % (st, tuple(new))
            elif nr != r1v or nt != t1v:
                bad = "the step does not shift (t, r) := (t1, r1): from %s it yields %s" % (st, tuple(new))
            elif abs(nr1) >= abs(r1v):
                bad = "the step does not make |r1| smaller: from %s it yields r1 = %d" % (st, nr1)
            if bad:
                break
    ctx.ob("T7-modular-inverse", b.name, "init / step / result", "ok" if not bad and n else "violation",
           "(0, 1, P, value); invariant, shift and decrease hold on %d sampled states; result t.into()" % n if not bad and n else (bad or "nothing evaluated"))
    # exit exactly at r1 == 0; r == 1 asserted before the result is built
    badx = None
    nx = 0
    for h, blocks in loops:
        for (x1, x2), atoms in loop_exit_atoms(b, h, blocks, g):
            nx += 1
            for v in (-3, 0, 1, 5):
                vals = [eval_atom_env(at, {r1: v}) for at in atoms]
                vals = [x for x in vals if x is not None]
                if not vals or all(vals) != (v == 0):
                    badx = "the loop is not left exactly when r1 == 0"
    asserted = False
    for rb in b.return_blocks():
        for a in b.facts_at(rb):
            a = atom_norm(a, g)
            if a[0] == "rel" and a[1] == "Eq" and {strip(a[2]), strip(a[3])} == {r, ("int", 1)}:
                asserted = True
            if a[0] == "bool" and a[2] is True and a[1][0] == "binop" and a[1][1] == "Eq" and {strip(a[1][2]), strip(a[1][3])} == {r, ("int", 1)}:
                asserted = True
    ctx.ob("T7-modular-inverse", b.name, "exit / gcd asserted", "ok" if nx >= 1 and not badx and asserted else "violation",
           "the loop ends at r1 == 0 and r == 1 is asserted before t is returned (no inverse of 0 is invented)" if nx >= 1 and not badx and asserted else
           (badx or ("r == 1 is not asserted before the result: 0.inverse() returns a number" if not asserted else "no loop exit")))


def matrix_ops(ctx, g):
    """the dense matrix primitives the solvers are written in: A + B, A - B element-wise with the operator of the same name, A * B =
    sum_k A[i][k] * B[k][j] with the accumulator reset per entry, transpose[i][j] = self[j][i]; all loops over the full index ranges.  For
    VecMatrix the shapes are fields, for the const-generic Matrix they are the type's parameters"""
    ctx.clauses.append("matrix primitives: + and - element-wise, * as row-by-column sums with a fresh accumulator per entry, transpose swaps the indices; full ranges (T9)")
    VM = "geometry::vec_matrix::VecMatrix<T>"
    MM = "geometry::matrix::Matrix<T, N, M>"
    n = 0

    def dims_of(d, which):
        """(rows, cols) terms of self (1) / rhs (2) for body name d"""
        return None

    def store_of(b):
        out = []
        for bi, si, s in b.assigns():
            pl = s["place"]["p"]
            if [e["k"] for e in pl] == ["deref", "index"]:
                base = strip(norm(b.local_origin(s["place"]["l"]), g))
                if is_call(base, "IndexMut::index_mut"):
                    out.append((bi, strip(base[2][0]), strip(base[2][1]), strip(norm(b.local_origin(pl[1]["l"]), g)), strip(norm(b.rv_origin(s["rv"]), g))))
        return out

    def elem(x):
        """(matrix, i, j) for M[i][j] (also under clone / refs)"""
        x = strip(x)
        if is_call(x, "Clone::clone"):
            x = strip(x[2][0])
        if x[0] == "index" and is_call(strip(x[1]), "Index::index"):
            return strip(strip(x[1])[2][0]), strip(strip(x[1])[2][1]), strip(x[2])
        return None

    def hi_of(b, payload):
        r = loop_range_of_payload(b, payload, g)
        if r is None or eval_int(r[0]) != 0 or r[2]:
            return None
        return strip(r[1])

    def shape(b, who, axis, dname):
        """the term a full loop over rows (0) / columns (1) of self (1) / rhs (2) must end at"""
        if "vec_matrix" in dname:
            return ("field", ("param", who, b.debug.get(who, "")), "nr_rows" if axis == 0 else "nr_cols")
        # const generics: read the parameter names from the impl header in the body name
        import re as _re
        hdr = dname.split(" as std::ops::")
        selfd = _re.findall(r"Matrix<T, (\w+), (\w+)>", hdr[0])
        rhsd = _re.findall(r"Matrix<T, (\w+), (\w+)>", hdr[1]) if len(hdr) > 1 else []
        dd = selfd[0] if who == 1 and selfd else (rhsd[0] if rhsd else (selfd[0] if selfd else None))
        return ("tyconstname", dd[axis]) if dd else None

    def same(term, want):
        if want is None or term is None:
            return False
        if want[0] == "tyconstname":
            return term[0] == "tyconst" and term[1].split("/")[0] == want[1]
        return term == want
    for d, b in sorted(ctx.facts.bodies.items()):
        if "{closure" in d or not (d.startswith("<&geometry::vec_matrix::VecMatrix<T> as std::ops::") or d.startswith("<&geometry::matrix::Matrix<T, N, M> as std::ops::")):
            continue
        tr = d.split(" as std::ops::")[1].split("<")[0]
        if tr not in ("Add", "Sub", "Mul") or "<&geometry" not in d.split(" as std::ops::")[1]:
            continue
        ctx.scan([b])
        me, rhs = ("param", 1, b.debug.get(1, "")), ("param", 2, b.debug.get(2, ""))
        st = store_of(b)
        bad = None
        if len(st) != 1:
            bad = "%d element stores" % len(st)
        else:
            bi, res, I, J, V = st[0]
            hi_i, hi_j = hi_of(b, I), hi_of(b, J)
            if tr in ("Add", "Sub"):
                okv = is_call(V, "%s::%s" % (tr, tr.lower())) and elem(V[2][0]) == (me, I, J) and elem(V[2][1]) == (rhs, I, J)
                if not okv:
                    bad = "entry (i, j) is not self[i][j] %s rhs[i][j]: %s" % ("+" if tr == "Add" else "-", show(V, 1)[:80])
                elif not (same(hi_i, shape(b, 1, 0, d)) and same(hi_j, shape(b, 1, 1, d))):
                    bad = "the loops do not run over all rows and all columns (%s, %s)" % (show(hi_i, 1)[:30] if hi_i else None, show(hi_j, 1)[:30] if hi_j else None)
            else:
                if V[0] != "local":
                    bad = "the entry stored is not the accumulator: %s" % show(V, 1)[:60]
                else:
                    ds = [(dbb, strip(norm(x, g))) for dbb, x in b.all_defs_origins(V[1])]
                    zero = [dbb for dbb, x in ds if is_call(x, "Zero::zero")]
                    acc = [(dbb, x) for dbb, x in ds if is_call(x, "Add::add") and V in (strip(x[2][0]), strip(x[2][1]))]
                    if len(ds) != 2 or len(zero) != 1 or len(acc) != 1:
                        bad = "the accumulator is not `zero(); x = x + product`"
                    else:
                        prod = [y for y in (strip(acc[0][1][2][0]), strip(acc[0][1][2][1])) if y != V][0]
                        l_, r_ = (elem(prod[2][0]), elem(prod[2][1])) if is_call(prod, "Mul::mul") else (None, None)
                        if not (l_ and r_ and l_[0] == me and r_[0] == rhs and l_[1] == I and r_[2] == J and l_[2] == r_[1]):
                            bad = "the product summed is not self[i][k] * rhs[k][j]: %s" % show(prod, 1)[:90]
                        else:
                            kk = map_term(l_[2], lambda y: norm(b.local_origin(y[1]), g) if y[0] == "local" and b.is_stable_local(y[1]) else None)
                            hi_k = hi_of(b, strip(kk))
                            lp_i, lp_j = loop_containing(b, bi), None
                            loops_ = natural_loops(b)
                            inner_of_zero = [h for h, bl in loops_ if zero[0] in bl]
                            inner_of_acc = [h for h, bl in loops_ if acc[0][0] in bl]
                            if not (same(hi_i, shape(b, 1, 0, d)) and same(hi_j, shape(b, 2, 1, d)) and same(hi_k, shape(b, 1, 1, d))):
                                bad = "the loops do not run over rows of self, columns of rhs and the shared dimension (%s, %s, %s)" % tuple(show(x, 1)[:25] if x else None for x in (hi_i, hi_j, hi_k))
                            elif not (len(inner_of_zero) == 2 and len(inner_of_acc) == 3):
                                bad = "the accumulator is not reset once per entry (zero() inside %d loops, the sum inside %d)" % (len(inner_of_zero), len(inner_of_acc))
        n += 1
        ctx.ob("T9-matrix-ops", d, tr, "ok" if not bad else "violation", {"Add": "result[i][j] = self[i][j] + rhs[i][j] over all rows and columns", "Sub": "result[i][j] = self[i][j] - rhs[i][j] over all rows and columns",
                                                                         "Mul": "result[i][j] = sum_k self[i][k] * rhs[k][j], accumulator reset per entry, full ranges"}[tr] if not bad else bad)
    for d in ("geometry::vec_matrix::VecMatrix::<T>::transpose", "geometry::matrix::Matrix::<T, N, M>::transpose"):
        b = ctx.body(d)
        ctx.scan([b])
        me = ("param", 1, b.debug.get(1, ""))
        st = store_of(b)
        bad = None
        if len(st) != 1:
            bad = "%d element stores" % len(st)
        else:
            bi, res, I, J, V = st[0]
            if elem(V) != (me, J, I):
                bad = "entry (i, j) of the transpose is not self[j][i]: %s" % show(V, 1)[:70]
            else:
                hi_i, hi_j = hi_of(b, I), hi_of(b, J)
                if "vec_matrix" in d:
                    okr = hi_i == ("field", me, "nr_cols") and hi_j == ("field", me, "nr_rows")
                    news = [[strip(norm(b.origin(a), g)) for a in t["args"]] for _, t in b.calls("VecMatrix::<T>::new")]
                    okr = okr and news == [[("field", me, "nr_cols"), ("field", me, "nr_rows")]]
                else:
                    okr = hi_i is not None and hi_j is not None and hi_i[0] == "tyconst" and hi_i[1].split("/")[0] == "M" and hi_j[0] == "tyconst" and hi_j[1].split("/")[0] == "N"
                if not okr:
                    bad = "the transpose is not built with (columns, rows) of self over the full ranges"
        n += 1
        ctx.ob("T9-matrix-ops", d, "transpose", "ok" if not bad else "violation", "result[i][j] = self[j][i] for i < columns, j < rows" if not bad else bad)
    ctx.floor("matrix primitives checked", n, 8)


def rational_reconstruction_contract(ctx, g):
    """rational_reconstruction(s, h): Wang's half-extended Euclid on (h, s) with an unsigned cofactor and an alternating sign.  With the invariant
        u1 = sign * s * v1   and   u = -sign * s * v   (mod h)
    the loop, left as soon as u1^2 <= h, ends with sign * u1 / v1 = s (mod h), numerator and denominator below sqrt(h): the unique such fraction.
    Decided by induction on sampled states (the update expressions are evaluated, nothing is run)"""
    import random
    ctx.clauses.append("rational reconstruction: (u, u1, v, v1, sign) from (h, s, 0, 1, 1); each step keeps u1 = sign*s*v1, u = -sign*s*v (mod h), shifts, flips the sign; exit at u1^2 <= h; result sign*u1 / v1 (T7, induction on sampled states)")
    b = ctx.body("geometry::modular_solver::rational_reconstruction")
    ctx.scan([b])
    s_, h_ = ("param", 1, b.debug.get(1, "")), ("param", 2, b.debug.get(2, ""))
    ret = strip(norm(b.local_origin(0), g))
    bad = None
    carried = None
    if not (is_call(ret, "Ratio::<T>::new") and len(ret[2]) == 2):
        bad = "the result is not a fraction built by Ratio::new"
    else:
        num = strip(fold_std_ops(ret[2][0]))
        v1 = strip(ret[2][1])
        if not (num[0] == "binop" and num[1] == "Mul" and v1[0] == "local"):
            bad = "the result is not (sign * u1) / v1: %s" % show(ret, 1)[:60]
        else:
            a, c = strip(num[2]), strip(num[3])
            loops = natural_loops(b)
            lb = set()
            for h__, bl_ in loops:
                lb |= set(bl_)

            def dd(x):
                ds = [(dbb, strip(norm(d, g))) for dbb, d in b.all_defs_origins(x[1])]
                return [d for dbb, d in ds if dbb not in lb], [d for dbb, d in ds if dbb in lb]
            lit = lambda t: map_term(t, lambda y: y[2][0] if is_call(y, "From::from") and len(y[2]) == 1 and strip(y[2][0])[0] == "int" else (strip(y[2][0]) if is_call(y, "Clone::clone") else None))
            # sign is the factor whose update is a negation
            sign, u1 = (a, c) if any(strip(fold_std_ops(d))[0] == "unop" for d in dd(a)[1]) else (c, a)
            u = [strip(d) for d in dd(u1)[1]]
            # u := u1 in the loop: find the variable that u1's remainder is taken from
            r1 = strip(fold_std_ops(lit(dd(u1)[1][0]))) if len(dd(u1)[1]) == 1 else None
            r1 = strip(norm(b.def_origin(r1), g)) if r1 is not None and r1[0] == "local" and len(b.all_defs_origins(r1[1])) == 1 else r1
            r1 = strip(fold_std_ops(lit(r1))) if r1 is not None else None
            if not (r1 is not None and r1[0] == "binop" and r1[1] == "Rem" and strip(r1[3]) == u1 and strip(r1[2])[0] == "local"):
                bad = "u1 is not replaced by the remainder of u by u1: %s" % (show(r1, 1)[:50] if r1 else None)
            else:
                uu = strip(r1[2])
                vv = [strip(d) for d in dd(v1)[0]]
                v = None
                for cand in [x for x in subterms(fold_std_ops(lit(dd(v1)[1][0]))) if isinstance(x, tuple) and x and x[0] == "local"]:
                    if cand not in (uu, u1, v1, sign) and len(b.all_defs_origins(cand[1])) == 2:
                        v = cand
                if v is None:
                    # v1_next is a temporary: expand it
                    t_ = fold_std_ops(lit(expand_single_defs(b, dd(v1)[1][0], g)))
                    for cand in [x for x in subterms(t_) if isinstance(x, tuple) and x and x[0] == "local"]:
                        if cand not in (uu, u1, v1, sign) and len(b.all_defs_origins(cand[1])) == 2:
                            v = cand
                if v is None:
                    bad = "the cofactor pair (v, v1) was not found"
                else:
                    carried = (uu, u1, v, v1, sign)
    n = 0
    if not bad:
        def expand(tm, depth=0):
            def f(x):
                if x[0] == "local" and x not in carried and depth < 6:
                    ds = b.all_defs_origins(x[1])
                    if len(ds) == 1:
                        return expand(norm(ds[0][1], g), depth + 1)
                return None
            return map_term(tm, f)
        lit = lambda t: map_term(t, lambda y: y[2][0] if is_call(y, "From::from") and len(y[2]) == 1 and strip(y[2][0])[0] == "int" else (strip(y[2][0]) if is_call(y, "Clone::clone") else None))
        loops = natural_loops(b)
        lb = set()
        for h__, bl_ in loops:
            lb |= set(bl_)
        defs = {}
        for x in carried:
            ds = [(dbb, norm(d, g)) for dbb, d in b.all_defs_origins(x[1])]
            defs[x] = ([d for dbb, d in ds if dbb not in lb], [d for dbb, d in ds if dbb in lb])
        if not all(len(defs[x][0]) == 1 and len(defs[x][1]) == 1 for x in carried):
            bad = "the five loop variables are not each initialised once and updated once per iteration"
        else:
            init = [eval_term_env(strip(fold_std_ops(lit(expand(defs[x][0][0])))), {s_: 17, h_: 101}) for x in carried]
            if init != [101, 17, 0, 1, 1]:
                bad = "for s = 17, h = 101 the initial state (u, u1, v, v1, sign) is %s, not (101, 17, 0, 1, 1)" % init
        if not bad:
            late = overwritten_reads(b, lb, carried)
            if late:
                nm = lambda l: b.debug.get(l, "_%d" % l)
                bad = "the new value of %s is computed from %s after %s has been overwritten in the same iteration (%s)" % (nm(late[0][0]), nm(late[0][1]), nm(late[0][1]), late[0][2])
        if not bad:
            upd = [strip(fold_std_ops(lit(expand(defs[x][1][0])))) for x in carried]
            rnd = random.Random(5)
            for _ in range(400):
                h = rnd.choice((101, 1009, 10007))
                s = rnd.randint(1, h - 1)
                sg = rnd.choice((1, -1))
                vv, vv1 = rnd.randint(0, 40), rnd.randint(1, 40)
                uv1 = (sg * s * vv1) % h + rnd.randint(0, 2) * h
                uv = (-sg * s * vv) % h + rnd.randint(0, 2) * h
                if uv1 == 0:
                    continue
                new = [eval_term_env(e, dict(zip(carried, (uv, uv1, vv, vv1, sg)))) for e in upd]
                if any(x is None for x in new):
                    bad = "the update expressions cannot be evaluated: %s" % [show(e, 1)[:50] for e, x in zip(upd, new) if x is None][:1]
                    break
                nu, nu1, nv, nv1, nsg = new
                n += 1
                st = "(u, u1, v, v1, sign) = %s with s = %d, h = %d" % ((uv, uv1, vv, vv1, sg), s, h)
                if (nu1 - nsg * s * nv1) % h or (nu + nsg * s * nv) % h:
                    bad = "the step does not keep u1 = sign*s*v1, u = -sign*s*v (mod h): from %s it yields %s" % (st, tuple(new))
                elif nu != uv1 or nv != vv1 or nsg != -sg:
                    bad = "the step does not shift (u, v) := (u1, v1) and flip the sign: from %s it yields %s" % (st, tuple(new))
                elif not (0 <= nu1 < uv1):
                    bad = "the step does not shrink u1: from %s it yields u1 = %d" % (st, nu1)
                if bad:
                    break
    ctx.ob("T7-rational-reconstruction", b.name, "init / step / result", "ok" if not bad and n else "violation",
           "(h, s, 0, 1, 1); congruences, shift, sign flip and decrease hold on %d sampled states; result (sign * u1) / v1" % n if not bad and n else (bad or "nothing evaluated"))
    if carried:
        u1 = carried[1]
        badx = None
        nx = 0
        for hh, blocks in natural_loops(b):
            for (x1, x2), atoms in loop_exit_atoms(b, hh, blocks, g):
                nx += 1
                for v in (0, 3, 10, 11, 50):
                    vals = [eval_atom_env(at, {u1: v, h_: 101}) for at in atoms]
                    vals = [x for x in vals if x is not None]
                    if not vals or all(vals) != (v * v <= 101):
                        badx = "the loop is not left exactly when u1^2 <= h (u1 = %d, h = 101: %s)" % (v, vals)
        ctx.ob("T7-rational-reconstruction", b.name, "exit", "ok" if nx >= 1 and not badx else "violation",
               "the loop ends exactly when u1^2 <= h (numerator below sqrt(h))" if nx >= 1 and not badx else (badx or "no loop exit"))


def padic_lifting(ctx, g):
    """Dixon's p-adic lifting in modular_solver::solve.  With c = a^-1 mod P every round takes x = c * b mod P, adds x * p to the solution, multiplies
    the modulus p by P and replaces the residual b by (b - a * x) / P (an exact division, because a * x = b mod P).  The exact identity
        a * s + p * b  =  b0
    is preserved (decided by evaluating the update expressions on sampled scalar states with x any solution of a * x = b mod P), so after k rounds
    a * s = b0 (mod P^k); every entry is then reconstructed from (s[i][j], p)"""
    import random
    ctx.clauses.append("p-adic lifting: x = c * b mod P with c = a^-1 mod P; s += x * p (old p), p *= P, b = (b - a * x) / P; a * s + p * b is invariant; result[i][j] = rational_reconstruction(s[i][j], p) for all entries (T7)")
    b = ctx.body("geometry::modular_solver::solve")
    ctx.scan([b])
    A, B0 = ("param", 1, b.debug.get(1, "")), ("param", 2, b.debug.get(2, ""))
    full = lambda t: map_term(t, lambda y: norm(b.local_origin(y[1]), g) if y[0] == "local" and b.is_stable_local(y[1]) else None)
    TO = "geometry::vec_matrix::VecMatrix::<T>::to"
    a_t = ("call", TO, (A,))
    bad = None
    loops = natural_loops(b)
    muls = [(bi, [strip(norm(b.origin(x), g)) for x in t["args"]]) for bi, t in b.calls("MulAssign::mul_assign")]
    rr = [(bi, [strip(norm(b.origin(x), g)) for x in t["args"]]) for bi, t in b.calls("modular_solver::rational_reconstruction")]
    if len(muls) != 1 or len(rr) != 1 or muls[0][1][0][0] != "local":
        bad = "not one `p *= prime` and one rational_reconstruction call"
    else:
        p = muls[0][1][0]
        prime = strip(full(muls[0][1][1]))
        Pv = eval_int(strip(prime[2][0])) if is_call(prime, "From::from") else None
        s = strip(rr[0][1][0])
        ix = as_index(s)
        s = as_index(ix[0])[0] if ix and as_index(ix[0]) else None
        if Pv is None or not is_prime(Pv):
            bad = "the modulus is not multiplied by a prime constant: %s" % show(prime, 1)[:40]
        elif s is None or s[0] != "local" or rr[0][1][1] != p:
            bad = "the entries are not reconstructed from (s[i][j], p)"
    if not bad:
        lb = None
        for h_, bl_ in loops:
            if muls[0][0] in bl_:
                lb = set(bl_)
        sd = [(dbb, strip(full(norm(d, g)))) for dbb, d in b.all_defs_origins(s[1])]
        s_in = [(dbb, d) for dbb, d in sd if lb and dbb in lb]
        s_out = [d for dbb, d in sd if not (lb and dbb in lb)]
        pd = [strip(full(norm(d, g))) for dbb, d in b.all_defs_origins(p[1])]
        if lb is None or len(s_in) != 1 or len(s_out) != 1 or len(pd) != 1:
            bad = "s and p are not initialised once and updated once per round"
        else:
            # the residual: the multi-defined local under `to(..)` in x = to(c * to(b))
            su = strip(fold_std_ops(s_in[0][1]))
            xs = [y for y in subterms(su) if isinstance(y, tuple) and y and is_call(y, TO) and strip(fold_std_ops(y[2][0]))[0] == "binop"]
            if not xs:
                bad = "the digit x = (c * b.to()).to() was not found in the update of s"
            else:
                xt = xs[0]
                prod = strip(fold_std_ops(xt[2][0]))
                cc, bt = strip(prod[2]), strip(prod[3])
                okc = prod[1] == "Mul" and cc[0] == "field" and cc[1][0] == "variant" and is_call(strip(cc[1][1]), "VecMatrix::<T>::inverse") and strip(strip(cc[1][1])[2][0]) == a_t
                res = strip(bt[2][0]) if is_call(bt, TO) else None
                if not okc or res is None or res[0] != "local":
                    bad = "the digit is not c * b (mod P) with c = inverse(a mod P): %s" % show(prod, 1)[:80]
                else:
                    X = ("local", -9, "x")
                    subx = lambda t: map_term(t, lambda y: X if y == xt else None)
                    rd = [(dbb, strip(full(norm(d, g)))) for dbb, d in b.all_defs_origins(res[1])]
                    r_in = [(dbb, d) for dbb, d in rd if dbb in lb]
                    r_out = [d for dbb, d in rd if dbb not in lb]
                    lit = lambda t: map_term(t, lambda y: y[2][0] if is_call(y, "From::from") and len(y[2]) == 1 and strip(y[2][0])[0] == "int" else None)
                    if len(r_in) != 1 or r_out != [("call", TO, (B0,))]:
                        bad = "the residual is not b.to() updated once per round"
                    elif eval_int(lit(pd[0])) != 1 or not is_call(s_out[0], "VecMatrix::<T>::new"):
                        bad = "the lifting does not start from s = 0, p = 1"
                    elif not b.dominates(s_in[0][0], muls[0][0]):
                        bad = "`p *= prime` does not come after the update of s in the round (s must take x * p with the OLD modulus)"
                    else:
                        s_up = strip(fold_std_ops(lit(subx(su))))
                        r_up = strip(fold_std_ops(lit(subx(strip(fold_std_ops(r_in[0][1]))))))
                        rnd = random.Random(3)
                        n = 0
                        Q = 10007      # a small stand-in prime for the evaluation (the identity is polynomial in P)
                        r_up_q = map_term(r_up, lambda y: ("int", Q) if y == ("int", Pv) else None)
                        for _ in range(300):
                            av = rnd.randint(1, 500)
                            if av % Q == 0:
                                continue
                            cv = pow(av, -1, Q)
                            sv, pv, bv = rnd.randint(-10 ** 6, 10 ** 6), Q ** rnd.randint(0, 3), rnd.randint(-10 ** 6, 10 ** 6)
                            xv = (cv * bv) % Q
                            env = {s: sv, p: pv, res: bv, X: xv, a_t: av}
                            ns, nb = eval_term_env(s_up, env), eval_term_env(r_up_q, env)
                            if ns is None or nb is None:
                                bad = "the update expressions cannot be evaluated: %s" % (show(s_up, 1)[:50] if ns is None else show(r_up_q, 1)[:60])
                                break
                            n += 1
                            if (bv - av * xv) % Q == 0 and nb * Q != bv - av * xv:
                                bad = "the residual is not replaced by (b - a * x) / P: from b = %d, a = %d, x = %d, P = %d it becomes %d" % (bv, av, xv, Q, nb)
                            elif av * ns + (pv * Q) * nb != av * sv + pv * bv:
                                bad = "a * s + p * b is not preserved by a round: (s, p, b) = (%d, %d, %d), a = %d, x = %d gives s = %d, b = %d" % (sv, pv, bv, av, xv, ns, nb)
                            if bad:
                                break
                        if not bad and n == 0:
                            bad = "nothing evaluated"
                        if not bad:
                            # all entries reconstructed
                            i_t, j_t = strip(as_index(ix[0])[1]), strip(ix[1])
                            ri, rj = loop_range_of_payload(b, i_t, g), loop_range_of_payload(b, j_t, g)
                            okr = ri and rj and eval_int(ri[0]) == 0 and eval_int(rj[0]) == 0 and not ri[2] and not rj[2] and \
                                contains(ri[1], lambda y: y[0] == "field" and y[2] == "nr_rows") and contains(rj[1], lambda y: y[0] == "field" and y[2] == "nr_cols")
                            if not okr:
                                bad = "not every entry (i < rows, j < columns of b) is reconstructed"
    ctx.ob("T7-padic-lifting", b.name, "round / reconstruction", "ok" if not bad else "violation",
           "x = c * b mod P; s += x * p; then p *= P; b = (b - a * x) / P; a * s + p * b invariant on sampled states; every entry reconstructed from (s[i][j], p)" if not bad else bad)


def _gcdx(a, b):
    """the crate's extended Euclid (geometry::traits::gcdx) on Python ints with Rust's truncating division: (g, r, s, t, u)"""
    a_, an = a, b
    r, rn = 1, 0
    s, sn = 0, 1
    while an != 0:
        q = int(a_ / an)
        a_, an = an, a_ - q * an
        r, rn = rn, r - q * rn
        s, sn = sn, s - q * sn
    return a_, r, s, rn, sn


def i64_row_step(ctx, g):
    """the integer elimination step (<i64 as Entry>::clear_col) replaces rows (row2, row1) by an integer combination built from
    gcdx(a[row2][col], a[row1][col]).  Decided by evaluating the stored expressions on sample values: the 2x2 transformation has
    determinant exactly +1 for every gcdx output (VecMatrix::determinant() only tracks row swaps), it is linear in the two rows, it puts
    0 into a[row1][col] and +-gcd into a[row2][col], and the multiplier x gets exactly the same transformation as a."""
    ctx.clauses.append("integer elimination step is a determinant-1 row operation that clears the column, applied identically to the multiplier (T4, symbolic evaluation on samples)")
    b = ctx.body("<i64 as geometry::traits::Entry>::clear_col")
    ctx.scan([b])
    col, row1, row2 = (("param", i, b.debug.get(i, "")) for i in (1, 2, 3))
    gx = [(bi, [strip(norm(b.origin(x), g)) for x in t["args"]]) for bi, t in b.calls(exact="geometry::traits::gcdx")]
    ctx.floor("gcdx calls in <i64 as Entry>::clear_col", len(gx), 1)
    if not gx:
        return
    m_t, n_t = gx[0][1]
    def is_at(t, row):
        return t[0] == "call" and t[1].endswith("Index::index") and strip(t[2][1]) == ("agg", "tuple", (row, col))
    okg = is_at(m_t, row2) and is_at(n_t, row1) and m_t[2][0] == n_t[2][0]
    ctx.ob("T4-int-row-step", b.name, "gcdx(a[(row2, col)], a[(row1, col)])", "ok" if okg else "violation",
           "the coefficients come from the two entries of the pivot column" if okg else "gcdx is not applied to a[(row2, col)], a[(row1, col)]: %s, %s" % (show(m_t, 1)[:50], show(n_t, 1)[:50]), b.span_of(gx[0][0]))
    G = ("call", "geometry::traits::gcdx", (m_t, n_t))
    R, S, T, U = (("field", G, str(i)) for i in (1, 2, 3, 4))
    # stores by (matrix term, row)
    stores = {}
    for bi, t in b.calls("IndexMut::index_mut"):
        a = [strip(norm(b.origin(x), g)) for x in t["args"]]
        dest = t["dest"]["l"]
        if not (a[1][0] == "agg" and len(a[1][2]) == 2):
            continue
        for bj, si, s in b.assigns():
            p = s["place"]
            if p["l"] == dest and [e["k"] for e in p["p"]] == ["deref"]:
                stores[(a[0], a[1][2][0])] = (a[1][2][1], norm(b.rv_origin(s["rv"]), g), bj)
    mats = sorted({k[0] for k in stores}, key=str)
    ctx.floor("matrices updated by the integer row step (a and x)", len(mats), 2)
    samples = [(m, n) for m in (-7, -4, -1, 2, 3, 6, 12) for n in (-9, -6, 1, 4, 5, 10)]
    coeffs = {}
    for mt in mats:
        if (mt, row1) not in stores or (mt, row2) not in stores:
            ctx.ob("T4-int-row-step", b.name, "stores:" + show(mt, 1)[:20], "violation", "the row step does not store both rows of " + show(mt, 1)[:30])
            continue
        k1, e1, b1 = stores[(mt, row1)]
        k2, e2, b2 = stores[(mt, row2)]
        X2 = ("call", "std::ops::Index::index", (mt, ("agg", "tuple", (row2, k2))))
        X1 = ("call", "std::ops::Index::index", (mt, ("agg", "tuple", (row1, k1))))
        bad = None
        cs = []
        for (m, n) in samples:
            for sg in (1, -1):
                g_, r, s_, t, u = _gcdx(m, n)
                t, u = sg * t, sg * u
                env = {R: r, S: s_, T: t, U: u}
                def ev(e, x2, x1):
                    env2 = dict(env)
                    env2[X2] = x2
                    env2[X1] = x1
                    return eval_term_env(stripcalls(e), {stripcalls(k): v for k, v in env2.items()})
                c = [[ev(e2, 1, 0), ev(e2, 0, 1)], [ev(e1, 1, 0), ev(e1, 0, 1)]]
                if any(v is None for row in c for v in row):
                    bad = bad or "the stored expressions are not integer combinations of the two rows with coefficients from gcdx (cannot be evaluated)"
                    break
                cs.append(((m, n, sg), c))
                lin = ev(e2, 2, 3) == 2 * c[0][0] + 3 * c[0][1] and ev(e1, 2, 3) == 2 * c[1][0] + 3 * c[1][1]
                det = c[0][0] * c[1][1] - c[0][1] * c[1][0]
                if not lin:
                    bad = bad or "the row step is not linear in the two rows"
                elif det != 1:
                    bad = bad or ("for gcdx(%d, %d) = (g, r, s, t, u) = %s the transformation [[%d, %d], [%d, %d]] has determinant %d, not +1: determinant() (which only tracks row swaps) gets the wrong sign/value"
                                  % (m, n, (g_, r, s_, t, u), c[0][0], c[0][1], c[1][0], c[1][1], det))
                elif c[1][0] * m + c[1][1] * n != 0:
                    bad = bad or "for column entries (%d, %d) the new a[(row1, col)] is %d, not 0: the column is not cleared" % (m, n, c[1][0] * m + c[1][1] * n)
                elif abs(c[0][0] * m + c[0][1] * n) != abs(g_):
                    bad = bad or "for column entries (%d, %d) the new a[(row2, col)] is %d, not +-gcd = %d" % (m, n, c[0][0] * m + c[0][1] * n, g_)
        coeffs[mt] = cs
        ctx.ob("T4-int-row-step", b.name, "unimodular:" + show(mt, 1)[:20], "ok" if not bad else "violation",
               "determinant +1, linear, clears a[(row1, col)], leaves +-gcd in a[(row2, col)] on %d sampled gcdx outputs" % len(cs) if not bad else bad, b.span_of(b2))
    if len(coeffs) == 2:
        (ma, ca), (mx, cx) = sorted(coeffs.items(), key=lambda kv: str(kv[0]))
        same = ca == cx
        ctx.ob("T4-int-row-step", b.name, "a and x get the same transformation", "ok" if same else "violation",
               "the multiplier is transformed exactly like the matrix" if same else "the row operation applied to the multiplier x differs from the one applied to a: x * original != echelon form")
    # k ranges
    for mt in mats:
        if (mt, row1) in stores:
            k1 = stores[(mt, row1)][0]
            r_ = loop_range_of_payload(b, k1, g)
            is_a = mt[0] == "param"
            okr = r_ is not None and not r_[2] and is_call(r_[1], "nr_columns") and (r_[0] == ("int", 0) or (is_a and strip(r_[0]) == col))
            ctx.ob("T4-int-row-step", b.name, "columns:" + show(mt, 1)[:20], "ok" if okr else "violation",
                   "every column %s is transformed" % ("from col on (the earlier ones are zero in both rows)" if is_a and r_ and strip(r_[0]) == col else "0..nr_columns()") if okr else
                   "the row step does not cover the columns %s..nr_columns(): %s" % ("col" if is_a else "0", r_ and (show(r_[0], 1)[:30], show(r_[1], 1)[:40])))


def determinant_sign(ctx, g):
    """the general determinant is the product of the echelon diagonal, negated when the number of row exchanges is odd: in both row-echelon
    constructors the counter starts at 0 and goes up by exactly 1 exactly where the two matrices are exchanged (under `pr != row`, on the same
    path as the swap of u), and the determinant negates exactly for nr_swaps % 2 != 0.  One exchange of rows pr and row is ONE transposition
    whatever their distance; counting the distance flips the sign for pivots two rows below."""
    ctx.clauses.append("determinant sign: swap counter 0, +1 per row exchange under pr != row; negated iff nr_swaps is odd (T4, both twins)")
    for nm, det in (("geometry::vec_matrix::RowEchelonVecMatrix::<T>::new", "geometry::vec_matrix::VecMatrix::<T>::determinant"),
                    ("geometry::matrix::RowEchelonMatrix::<T, N, M>::new", "geometry::matrix::Matrix::<T, N, N>::determinant")):
        b = ctx.body(nm)
        ctx.scan([b])
        bad = None
        r = strip(norm(b.local_origin(0), g))
        adt = ctx.facts.adts.get(r[1].replace("adt:", "").rsplit("::", 1)[0]) if r[0] == "agg" else None
        cnt = None
        if adt is not None:
            names = [f["name"] for f in adt["variants"][0]["fields"]]
            if "nr_swaps" in names and len(names) == len(r[2]):
                cnt = strip(r[2][names.index("nr_swaps")])
        if cnt is None or cnt[0] != "local":
            bad = "the swap counter handed to the echelon form is not a local counter"
        else:
            defs = [(dbb, unov_deep(strip(norm(d, g)))) for dbb, d in b.all_defs_origins(cnt[1])]
            ini = [d for dbb, d in defs if eval_int(d) is not None]
            inc = [(dbb, d) for dbb, d in defs if eval_int(d) is None]
            swaps = [(bi, [strip(norm(b.origin(x), g)) for x in t["args"]]) for bi, t in b.calls("::swap_rows")]
            if [eval_int(d) for d in ini] != [0] or len(inc) != 1:
                bad = "the swap counter is not `0`, then one update site (%d constant definitions, %d updates)" % (len(ini), len(inc))
            elif inc[0][1] != ("binop", "Add", cnt, ("int", 1)):
                bad = "the swap counter is advanced by %s, not by exactly 1 per exchange (one exchange of two rows is one transposition whatever their distance)" % show(inc[0][1], 1)[:60]
            elif len(swaps) != 2 or swaps[0][1][1:] != swaps[1][1][1:]:
                bad = "the two matrices are not exchanged by one swap_rows(pr, row) each on the same rows"
            else:
                ib = inc[0][0]
                pr, row = swaps[0][1][1], swaps[0][1][2]
                ne = lambda fa: any(a[0] == "rel" and a[1] == "Ne" and {strip(a[2]), strip(a[3])} == {pr, row} for a in (atom_norm(x, g) for x in fa))
                if not ne(b.facts_at(ib)):
                    bad = "the swap counter is advanced where `pivot row != row` does not hold: a pivot already in place counts as an exchange"
                elif not all(ne(b.facts_at(sb)) for sb, _ in swaps):
                    bad = "rows are exchanged outside the `pivot row != row` branch that counts the exchange"
                else:
                    lp = loop_containing(b, ib)
                    hdr = lp[0] if lp else None
                    first = [x for x in [ib] + [sb for sb, _ in swaps] if all(b.dominates(x, y) for y in [ib] + [sb for sb, _ in swaps])]
                    if hdr is None or not first or not all(must_pass_through(b, first[0], x, hdr) for x in [ib] + [sb for sb, _ in swaps]):
                        bad = "an exchange of rows can happen without the counter being advanced (or the reverse)"
        ctx.ob("T4-determinant-sign", b.name, "nr_swaps: 0, +1 per exchange", "ok" if not bad else "violation",
               "counter 0; +1 on the path that exchanges rows pr and row of both matrices, under pr != row" if not bad else bad)
        # the determinant's use of the parity
        d = ctx.body(det)
        ctx.scan([d])
        bad = None
        negs = [bi for bi, t in d.calls("ops::Neg::neg")]
        if len(negs) != 1:
            bad = "%d negations in the determinant (one expected, for an odd number of exchanges)" % len(negs)
        else:
            def val(k):
                def f(y):
                    y = strip(y)
                    if y[0] == "field" and y[2] == "nr_swaps":
                        return k
                    return None
                return f
            sw = None
            for bi, blk in d.live_blocks():
                t = blk["term"]
                if t["k"] == "switch" and contains(strip(norm(d.origin(t["discr"]), g)), lambda y: isinstance(y, tuple) and y and y[0] == "field" and y[2] == "nr_swaps"):
                    sw = bi
            if sw is None:
                bad = "no test on nr_swaps in the determinant"
            else:
                for k in (0, 1, 2, 3, 5):
                    rch = bool(reachable_sites(d, g, {negs[0]}, val(k), start=sw))
                    if rch != (k % 2 == 1):
                        bad = bad or "with %d row exchanges the product of the diagonal is %s" % (k, "negated" if rch else "not negated")
        ctx.ob("T4-determinant-sign", d.name, "negated iff nr_swaps odd", "ok" if not bad else "violation",
               "the diagonal product is negated exactly for an odd number of row exchanges" if not bad else bad)


def echelon_driver(ctx, g):
    """both row-echelon constructors: the pivot row counter starts at 0 and goes up by exactly 1 exactly when a pivot was found in the column;
    a column is examined only while row < number of rows (strictly: at row == rows the pivot search reads past the last row); the pivot search
    gets (col, row), the elimination runs over ALL rows below the pivot row - r in row + 1 .. rows - with clear_col(col, r, row, ..);
    the counter is the rank handed to the echelon form."""
    ctx.clauses.append("row-echelon driver: row counter 0, +1 per pivot; columns examined iff row < rows; every row below the pivot row eliminated (T4, both twins)")
    for nm in TWINS:
        b = ctx.body(nm)
        bad = None
        r = strip(norm(b.local_origin(0), g))
        adt = ctx.facts.adts.get(r[1].replace("adt:", "").rsplit("::", 1)[0]) if r[0] == "agg" else None
        row = None
        if adt is not None:
            names = [f["name"] for f in adt["variants"][0]["fields"]]
            if "rank" in names and len(names) == len(r[2]):
                row = strip(r[2][names.index("rank")])
        pv = [(bi, [unov_deep(strip(norm(b.origin(x), g))) for x in t["args"]]) for bi, t in b.calls("Entry::pivot_row")]
        cc = [(bi, [unov_deep(strip(norm(b.origin(x), g))) for x in t["args"]], t) for bi, t in b.calls("Entry::clear_col")]
        if row is None or row[0] != "local" or len(pv) != 1 or len(cc) != 1:
            bad = "rank counter, pivot search or elimination call not found"
        else:
            defs = [(dbb, unov_deep(strip(norm(d, g)))) for dbb, d in b.all_defs_origins(row[1])]
            ini = [d for _, d in defs if eval_int(d) is not None]
            inc = [(dbb, d) for dbb, d in defs if eval_int(d) is None]
            pb, pa = pv[0]
            cb, ca, ct = cc[0]
            if [eval_int(d) for d in ini] != [0] or len(inc) != 1 or inc[0][1] != ("binop", "Add", row, ("int", 1)):
                bad = "the pivot row counter is not `0`, then `+= 1` at one site: %s" % [show(d, 1)[:30] for _, d in defs]
            else:
                ib = inc[0][0]
                fa = [atom_norm(x, g) for x in b.facts_at(ib)]
                found = any(a[0] == "variant" and a[2] == 1 and is_call(strip(a[1]), "Entry::pivot_row") for a in fa)
                lp = loop_containing(b, ib)
                if not found:
                    bad = "the pivot row counter is advanced for a column without a pivot"
                elif lp is None or not must_pass_through(b, [s_ for (a_, s_), ps in b.edge_preds().items() if a_ == b.blocks[pb]["term"].get("t") and any(h[0] == "variant" and h[2] == 1 for term, val in ps for h in atoms_of(term, val))][0], ib, lp[0]):
                    bad = "a column with a pivot can be finished without advancing the pivot row counter"
            if not bad and (pa[1] != row or loop_range_of_payload(b, b.origin(b.blocks[pb]["term"]["args"][0]), g) is None):
                bad = "the pivot search is not pivot_row(col, row, ..) with col running over the columns"
            if not bad:
                # columns examined iff row < rows
                rows_t = None
                for a in (atom_norm(x, g) for x in b.facts_at(pb)):
                    if a[0] == "rel" and a[1] in ("Lt", "Le") and strip(a[2]) == row:
                        rows_t = strip(a[3])
                if rows_t is None:
                    bad = "no test of the pivot row counter against the number of rows before the pivot search"
                else:
                    for rv, nv in ((0, 2), (1, 2), (2, 2), (3, 2), (0, 0), (0, 1)):
                        def f(y, rv=rv, nv=nv):
                            y = strip(y)
                            return rv if y == row else nv if y == rows_t else None
                        lpp = loop_containing(b, pb)
                        rch = bool(reachable_sites(b, g, {pb}, f, start=lpp[1] if lpp else 0))
                        if rch != (rv < nv) and not bad:
                            bad = "with %d pivot rows found in a matrix of %d rows the next column is %s" % (rv, nv, "examined (the pivot search reads past the last row)" if rch else "not examined (rank too small)")
            if not bad:
                rg = loop_range_of_payload(b, b.origin(ct["args"][1]), g)
                okr = rg is not None and unov_deep(strip(rg[0])) == ("binop", "Add", row, ("int", 1)) and not rg[2] and strip(rg[1]) == rows_t
                if not (okr and ca[0] == pa[0] and ca[2] == row):
                    bad = "the elimination is not clear_col(col, r, row, ..) for every r in row + 1 .. rows: range %s" % (rg and (show(rg[0], 1)[:30], show(rg[1], 1)[:30], rg[2]),)
        ctx.ob("T4-echelon-driver", b.name, "row counter / column guard / elimination range", "ok" if not bad else "violation",
               "row = 0, += 1 per pivot; pivot_row(col, row) iff row < rows; clear_col(col, r, row) for r in row + 1 .. rows" if not bad else bad)
    # the integer pivot choice and the zero / one tests of the residue classes
    pb = ctx.body("<i64 as geometry::traits::Entry>::pivot_row")
    ctx.scan([pb])
    bad = None
    best = [("local", l, nm) for l, nm in pb.debug.items() if pb.local_ty(l) == "usize" and not pb.is_stable_local(l) and len(list(pb.all_defs_origins(l))) == 2]
    if len(best) != 1:
        bad = "no running best row"
    else:
        defs = [(dbb, strip(norm(d, g))) for dbb, d in pb.all_defs_origins(best[0][1])]
        upd = [dbb for dbb, d in defs if loop_containing(pb, dbb) is not None]
        ini = [d for dbb, d in defs if loop_containing(pb, dbb) is None]
        row0 = ("param", 2, pb.debug.get(2, ""))
        if ini != [row0] or len(upd) != 1:
            bad = "the best row does not start as row0 and change at one site"
        else:
            lp = loop_containing(pb, upd[0])
            rg = range_of(pb, ("local", lp[2], ""), g) if lp[2] is not None else None
            if not (rg and unov_deep(strip(rg[0])) == ("binop", "Add", row0, ("int", 1)) and not rg[2] and is_call(strip(rg[1]), "nr_rows")):
                bad = "the pivot search does not run over row0 + 1 .. nr_rows()"
            xs = [t for t in (strip(norm(pb.origin(t["args"][0]), g)) for bi, t in pb.calls("::abs"))]
            def which(t):
                ix = [y for y in subterms(t) if is_call(y, "Index::index")]
                if not ix:
                    return None
                key = strip(ix[0][2][1])
                r_ = strip(key[2][0]) if key[0] == "agg" else None
                return "y" if r_ == best[0] else "x" if r_ is not None else None
            def val(xv, yv):
                def f(y):
                    y = strip(y)
                    w = which(y)
                    if is_call(y, "::abs"):
                        w = which(strip(y[2][0]))
                        return abs(xv) if w == "x" else abs(yv) if w == "y" else None
                    if is_call(y, "Index::index") or (y[0] == "deref"):
                        return xv if w == "x" else yv if w == "y" else None
                    return None
                return f
            if not bad:
                for xv, yv, want in ((0, 0, False), (0, 5, False), (3, 0, True), (-3, 0, True), (2, 5, True), (-2, 5, True), (5, 2, False), (5, -2, False), (7, -9, True)):
                    rch = bool(reachable_sites(pb, g, {upd[0]}, val(xv, yv), start=lp[1]))
                    if rch != want and not bad:
                        bad = "candidate entry %d against the best entry %d so far: the candidate %s" % (xv, yv, "replaces it" if rch else "does not replace it")
            # result: Some(best) iff entry != 0
            if not bad:
                somes = [bi for bi, si, s_ in pb.assigns() if s_["place"]["l"] == 0 and not s_["place"]["p"] and strip(norm(pb.rv_origin(s_["rv"]), g))[1].endswith("Option::Some")]
                for yv in (0, 4, -4):
                    rch = bool(reachable_sites(pb, g, set(somes), val(1, yv)))
                    if rch != (yv != 0) and not bad:
                        bad = "best entry %d: the pivot search answers %s" % (yv, "Some" if rch else "None")
    ctx.ob("T4-int-pivot", pb.name, "smallest non-zero entry below row0", "ok" if not bad else "violation",
           "best = row0; row in row0 + 1 .. rows replaces it iff its entry is non-zero and (best entry is zero or |entry| < |best|); Some iff best entry != 0" if not bad else bad)
    for nm, k in (("<geometry::prime_residue_classes::PrimeResidueClass<P> as num_traits::Zero>::is_zero", 0), ("<geometry::prime_residue_classes::PrimeResidueClass<P> as num_traits::One>::is_one", 1)):
        zb = ctx.facts.bodies.get(nm)
        if zb is None:
            continue
        ctx.scan([zb])
        r = strip(norm(zb.local_origin(0), g))
        ok = r[0] == "binop" and r[1] == "Eq" and {strip(r[2]), strip(r[3])} == {("field", ("param", 1, zb.debug.get(1, "")), "value"), ("int", k)}
        ctx.ob("T4-residue-tests", zb.name, "value == %d" % k, "ok" if ok else "violation",
               "the class of %d is recognised by its canonical representative" % k if ok else "%s is not `self.value == %d`: pivots / units are mis-recognised in the modular solver" % (nm.split("::")[-1], k))
    cd = ctx.body("<i64 as geometry::traits::Entry>::can_divide")
    ctx.scan([cd])
    a_, b_ = ("param", 1, cd.debug.get(1, "")), ("param", 2, cd.debug.get(2, ""))
    bad = None
    for av, bv, want in ((6, 3, True), (7, 3, False), (0, 3, True), (6, 0, False), (0, 0, False), (-6, 3, True), (6, -4, False), (5, 1, True)):
        def f(y, av=av, bv=bv):
            y = strip(y)
            if y in (a_, ("deref", a_)):
                return av
            if y in (b_, ("deref", b_)):
                return bv
            return None
        def ev(t):
            env = {y: f(y) for y in subterms(t) if isinstance(y, tuple) and y and f(y) is not None}
            return eval_term_env(fold_std_ops(unov_deep(t)), env)
        got = bool_results(cd, g, f)
        if got != {want} and not bad:
            bad = "can_divide(%d, %d) is %s" % (av, bv, sorted(got, key=str))
    ctx.ob("T4-int-can-divide", cd.name, "b != 0 && a / b * b == a", "ok" if not bad else "violation", "exact divisibility, false for a zero divisor" if not bad else bad)


def padic_driver(ctx, g):
    """Dixon lifting needs enough p-adic digits for the rational reconstruction to be unique: the step count is
    ceil(2 * (log_delta + ln(golden ratio)) / ln(p)) with log_delta the sum of the log column norms without the smallest (Hadamard bound) - the
    expression is evaluated in floating point on sample values and must agree with that formula; solve asks for it with (a, b, PRIME) in this
    order and accumulates into matrices of b's shape (rows x columns of b)."""
    import math, struct
    ctx.clauses.append("p-adic lifting: step bound ceil(2 (log_delta + ln phi) / ln p) evaluated; called with (a, b, PRIME); accumulators have b's shape (T7/T4)")
    nb = ctx.body("geometry::modular_solver::number_of_p_adic_steps_needed")
    r = unov_deep(strip(norm(nb.local_origin(0), g)))
    def fl(t, L, pv):
        t = strip(t)
        if t[0] == "int":
            v = t[1]
            if abs(v) > 2 ** 52:
                return struct.unpack("<d", struct.pack("<Q", v & (2 ** 64 - 1)))[0]
            return float(v)
        if t[0] == "cast":
            return fl(t[1], L, pv)
        if t[0] == "param":
            return float(pv)
        if t[0] == "binop":
            a, b_ = fl(t[2], L, pv), fl(t[3], L, pv)
            if a is None or b_ is None:
                return None
            try:
                return {"Add": a + b_, "Sub": a - b_, "Mul": a * b_, "Div": a / b_}.get(t[1])
            except ZeroDivisionError:
                return None
        if t[0] == "call":
            n = t[1].split("::")[-1]
            if n == "sum":
                return L
            a = fl(t[2][0], L, pv) if t[2] else None
            if a is None:
                return None
            try:
                return {"ln": math.log, "sqrt": math.sqrt, "ceil": math.ceil}[n](a) if n in ("ln", "sqrt", "ceil") else None
            except ValueError:
                return None
        return None
    bad = None
    for L, pv in ((10.0, 7), (50.0, 3037000493), (0.5, 2), (123.456, 9999991)):
        got = fl(r, L, pv)
        want = math.ceil(2.0 * (L + math.log((1.0 + math.sqrt(5.0)) / 2.0)) / math.log(pv))
        # more digits than the bound are harmless, fewer make the reconstruction ambiguous
        if got is None or got < want - 1e-9:
            bad = bad or "for log_delta = %s and p = %s the step count is %s, below the bound %s" % (L, pv, got, want)
    ctx.ob("T7-padic-step-bound", nb.name, "ceil(2 (log_delta + ln phi) / ln p)", "ok" if not bad else "violation",
           "the step count reaches the Hadamard / golden-ratio bound (evaluated on 4 samples)" if not bad else bad)
    sv = ctx.body("geometry::modular_solver::solve")
    a_, b_ = ("param", 1, sv.debug.get(1, "")), ("param", 2, sv.debug.get(2, ""))
    bad = None
    st = [[strip(norm(sv.origin(x), g)) for x in t["args"]] for bi, t in sv.calls("number_of_p_adic_steps_needed")]
    if len(st) != 1 or st[0][:2] != [a_, b_] or not (st[0][2][0] == "int" and is_prime(st[0][2][1])):
        bad = "the step count is not asked for (a, b, PRIME)"
    news = [[strip(norm(sv.origin(x), g)) for x in t["args"]] for bi, t in sv.calls("VecMatrix::<T>::new")]
    def dim(t, which):
        t = strip(t)
        return (t[0] == "field" and strip(t[1]) == b_ and t[2] == which) or (is_call(t, which) and strip(t[2][0]) == b_)
    if not bad and (len(news) != 2 or not all((dim(n[0], "nr_rows") and (dim(n[1], "nr_cols") or dim(n[1], "nr_columns"))) for n in news)):
        bad = "the accumulator and the result are not created with (b.nr_rows(), b.nr_columns())"
    ctx.ob("T4-padic-driver", sv.name, "steps(a, b, PRIME); shapes", "ok" if not bad else "violation", "step count for (a, b, PRIME); accumulator and result have the shape of b" if not bad else bad)
    # field clear_col: the columns right of the pivot column are updated, all of them; the multiplier matrix over all its columns
    for nm in ("<num_rational::Ratio<num_bigint::BigInt> as geometry::traits::Entry>::clear_col",
               "geometry::modular_solver::<impl geometry::traits::Entry for geometry::prime_residue_classes::PrimeResidueClass<P>>::clear_col"):
        cb = ctx.body(nm)
        col = ("param", 1, cb.debug.get(1, ""))
        rgs = []
        for h, e, it in loops_in(cb):
            if it is not None:
                rg = range_of(cb, ("local", it, ""), g)
                if rg:
                    rgs.append((unov_deep(strip(rg[0])), strip(rg[1]), rg[2]))
        oka = any(lo == ("binop", "Add", col, ("int", 1)) and not inc and is_call(hi, "nr_columns") for lo, hi, inc in rgs)
        okx = any(eval_int(lo) == 0 and not inc and is_call(hi, "nr_columns") for lo, hi, inc in rgs)
        ctx.ob("T4-field-clear-col-ranges", cb.name, "a: col + 1 .. columns; x: 0 .. columns", "ok" if oka and okx and len(rgs) == 2 else "violation",
               "the row operation covers every column right of the pivot column and the whole row of the multiplier" if oka and okx and len(rgs) == 2 else
               "the row operation does not run over col + 1 .. a.nr_columns() and 0 .. x.nr_columns(): %s" % [(show(lo, 1)[:24], show(hi, 1)[:24], inc) for lo, hi, inc in rgs])


def stripcalls(t):
    return map_term(strip(t) if isinstance(t, tuple) else t, lambda x: (x[0], x[1], tuple(strip(a) for a in x[2])) if x[0] == "call" else (strip(x) if x[0] in ("ref", "deref") else None))


def closed_form_determinants(ctx, g):
    """the determinants of 0x0 .. 3x3 matrices are closed formulas (only larger ones go through the echelon form): each arm of the match on
    the size is evaluated on sampled integer matrices and must equal the Leibniz determinant"""
    import random
    ctx.clauses.append("closed-form determinants for sizes 0..3 equal the Leibniz formula (T4, arms evaluated on sampled matrices)")
    rnd = random.Random(5)

    def det(m):
        n = len(m)
        if n == 0:
            return 1
        if n == 1:
            return m[0][0]
        return sum((-1) ** j * m[0][j] * det([row[:j] + row[j + 1:] for row in m[1:]]) for j in range(n))
    for name in ("geometry::vec_matrix::VecMatrix::<T>::determinant", "geometry::matrix::Matrix::<T, N, N>::determinant"):
        b = ctx.body(name)
        ctx.scan([b])
        me = ("param", 1, b.debug.get(1, ""))
        arms = {}
        for bi, blk in b.live_blocks():
            t = blk["term"]
            if t["k"] == "switch" and len(t["targets"]) >= 3:
                d = norm(b.origin(t["discr"]), g)
                if not (contains(d, lambda y: y == me) and ("nr_rows" in str(d))):
                    continue
                for v, tg in t["targets"]:
                    cur, val, seen = tg, None, set()
                    while cur is not None and cur not in seen:
                        seen.add(cur)
                        blk2 = b.blocks[cur]
                        for s in blk2["stmts"]:
                            if s["k"] == "assign" and s["place"]["l"] == 0 and not s["place"]["p"]:
                                val = norm(b.rv_origin(s["rv"]), g)
                        tt = blk2["term"]
                        if tt["k"] == "call" and tt["dest"]["l"] == 0 and not tt["dest"]["p"]:
                            val = norm(("call", tt["callee"].get("def"), tuple(b.origin(a) for a in tt["args"])), g)
                        nx = [x for x in b.succ().get(cur, []) if x not in b.panic_blocks()]
                        if val is not None or len(nx) != 1:
                            break
                        cur = nx[0]
                    arms[v] = val
        ctx.floor("closed-form arms of %s" % name.split("::")[-2], len(arms), 3)
        bad = None
        for n, val in sorted(arms.items()):
            if val is None or n > 6:
                continue          # (an arm for size n must be the n x n determinant whatever n is: `4 => <3 x 3 formula>` is evaluated as well)
            val = fold_std_ops(val)

            def entry(x):
                """(i, j) if x is self[i][j] in one of its lowered forms"""
                x = strip(x)
                if x[0] == "index" and eval_int(x[2]) is not None:
                    inner = strip(x[1])
                    if (is_call(inner, "Index::index") and strip(inner[2][0]) == me and eval_int(inner[2][1]) is not None):
                        return (eval_int(inner[2][1]), eval_int(x[2]))
                    if inner[0] == "index" and strip(inner[1]) == me and eval_int(inner[2]) is not None:
                        return (eval_int(inner[2]), eval_int(x[2]))
                if is_call(x, "Index::index") and eval_int(x[2][1]) is not None:
                    inner = strip(x[2][0])
                    if is_call(inner, "Index::index") and strip(inner[2][0]) == me and eval_int(inner[2][1]) is not None:
                        return (eval_int(inner[2][1]), eval_int(x[2][1]))
                return None
            ents = {x: entry(x) for x in subterms(val) if entry(x) is not None}
            for _ in range(6):
                m = [[rnd.randint(-7, 7) for _ in range(n)] for _ in range(n)]
                env = {x: m[ij[0]][ij[1]] for x, ij in ents.items() if ij[0] < n and ij[1] < n}
                if len(env) != len(ents):
                    bad = bad or "the %dx%d arm reads an entry outside the matrix" % (n, n)
                    break
                got = eval_term_env(val, env)
                if got != det(m):
                    bad = bad or "the %dx%d arm evaluates to %s on %s, the determinant is %d" % (n, n, got, m, det(m))
                    break
        ctx.ob("T4-closed-form-determinant", name, "arms 0..3", "ok" if not bad else "violation",
               "each closed formula equals the Leibniz determinant on 6 sampled integer matrices" if not bad else bad)


def padic_steps(ctx, g):
    """the Hadamard-type bound drops the smallest of all n+1 norms: `skip(1)` must be applied to the list while it is sorted,
    and the list must contain the right-hand side's norm as well as the column norms"""
    ctx.clauses.append("p-adic step bound: the smallest norm is dropped from the complete, sorted list (T9)")
    b = ctx.body("geometry::modular_solver::number_of_p_adic_steps_needed")
    ctx.scan([b])
    skips = list(b.calls("Iterator::skip"))
    ctx.floor("skip(..) uses in number_of_p_adic_steps_needed", len(skips), 1)
    for bi, t in skips:
        recv = strip(b.origin(t["args"][0]))
        root = recv
        while root[0] == "call" and root[2]:
            root = strip(root[2][0])
        n = norm(b.origin(t["args"][1]), g)
        ok = root[0] == "local" and sorted_at(b, root[1], bi, g)
        ctx.ob("T9-sorted-before-skip", b.name, "log_norms.iter().skip(1)", "ok" if ok and n == ("int", 1) else "violation",
               "the norm list is sorted (and not modified afterwards) when its smallest element is skipped" if ok and n == ("int", 1) else
               "skip(%s) is applied to a list that is not sorted at that point (no dominating sort, or modified after sorting): the element dropped from the bound is not the smallest norm, the step count can be too small" % show(n, 1), b.span_of(bi))
        if root[0] == "local":
            pushes = [bj for bj, t2 in b.calls("Vec::<T, A>::push") if strip(b.origin(t2["args"][0]))[0] == "local" and strip(b.origin(t2["args"][0]))[1] == root[1]]
            okp = any(b.dominates(bj, bi) for bj in pushes)
            ctx.require(okp, "T9-sorted-before-skip", b.name, "push(norm of rhs)", "the right-hand side's norm is part of the list", "the right-hand side's norm is not added to the list before the bound is computed", b.span_of(bi))
    # the right-hand side enters with its LARGEST column norm (the bound must hold for every column of b), all columns 0..nr_columns; the
    # ascending sort that makes skip(1) drop the smallest norm compares (a, b) in this order
    bp = ("param", 2, b.debug.get(2, ""))
    okmax = False
    whym = "no maximum over the columns of b is pushed"
    for bj, t2 in b.calls("Vec::<T, A>::push"):
        v = norm(b.origin(t2["args"][1]), g)
        for x in subterms(v):
            if x[0] == "call" and x[1].split("::")[-1] in ("max_by", "min_by", "max", "min", "fold", "reduce") and contains(x, lambda y: y == ("field", bp, "nr_cols") or is_call(y, "nr_columns") and contains(y, lambda z: z == bp)):
                last = x[1].split("::")[-1]
                res = closure_result(ctx.facts, x[2][1], g) if len(x[2]) == 2 else None
                asc = res is not None and is_call(res, "total_cmp") and [strip(y) for y in res[2]] == [("param", 2, strip(res[2][0])[2]), ("param", 3, strip(res[2][1])[2])] and strip(res[2][0])[1] == 2 and strip(res[2][1])[1] == 3
                r_ = [range_of(b, y, g) for y in subterms(x) if y[0] == "agg" and y[1].endswith("ops::Range::Range")]
                okr = any(rr is not None and rr[0] == ("int", 0) and not rr[2] for rr in r_)
                okmax = last == "max_by" and asc and okr
                whym = "the value pushed for b is %s%s over %s" % (last, "" if asc else " with a reversed comparison", "0..nr_columns" if okr else "another range")
    ctx.ob("T9-rhs-largest-norm", b.name, "push(max over the columns of b)", "ok" if okmax else "violation",
           "the right-hand side contributes its largest column norm" if okmax else
           whym + ": with columns of very different size the bound is computed from a small one, p^steps is too small for rational reconstruction and solve returns wrong fractions")
    oksort = False
    for bj, t2 in b.calls("sort_by"):
        res = closure_result(ctx.facts, b.origin(t2["args"][1]), g)
        oksort = res is not None and is_call(res, "total_cmp") and strip(res[2][0])[:2] == ("param", 2) and strip(res[2][1])[:2] == ("param", 3)
    ctx.ob("T9-rhs-largest-norm", b.name, "ascending sort", "ok" if oksort else "violation",
           "the list is sorted ascending (a.total_cmp(b)), so skip(1) drops the smallest norm" if oksort else "the norm list is not sorted ascending by a.total_cmp(b): skip(1) does not drop the smallest norm")


# ---------------------------------------------------------------- (1) T1 + T7
def residues(ctx):
    ctx.clauses.append("canonical representative for every integer input (T1 + T7, proved modulo A2)")
    g = ctx.facts.getters()
    n = 0
    vis, _ = field_vis(ctx, PRC, "value")
    ctx.require(is_private(vis), "T8-private-field", PRC, "field:value", "value is private", "PrimeResidueClass.value is visible outside its module: " + vis)
    for body in ctx.scan(ctx.facts.all_bodies()):
        for bi, si, s in body.assigns():
            rv = s["rv"]
            pl = s["place"]
            if pl["p"] and pl["p"][-1]["k"] == "field" and pl["p"][-1].get("adt") == PRC and pl["p"][-1]["name"] == "value":
                n += 1
                ctx.ob("T1-write-through", body.name, "assign:.value", "violation", "direct assignment to PrimeResidueClass.value bypasses the canonicalising conversions", body.span_of(bi, si))
                continue
            if rv["k"] in ("ref", "rawptr") and (rv.get("mut") or rv["k"] == "rawptr") and any(e["k"] == "field" and e.get("adt") == PRC and e["name"] == "value" for e in rv["place"]["p"]):
                n += 1
                ctx.ob("T1-write-through", body.name, "mutborrow:.value", "violation", "mutable borrow of PrimeResidueClass.value", body.span_of(bi, si))
                continue
            if not (rv["k"] == "aggregate" and rv.get("agg") == "adt" and rv["adt"] == PRC):
                continue
            n += 1
            op = rv["ops"][rv["fields"].index("value")]
            val = body.origin(op)
            v = strip(val)
            if (v[0] == "field" and v[2] == "value") or (v[0] == "call" and v[1].endswith("clone::Clone::clone") and strip(v[2][0])[0] == "field"):
                ctx.ob("T1-write-through", body.name, "construct:.value<-copy", "ok", "copy of another instance's value", body.span_of(bi, si))
                continue
            # T7: evaluate every definition of the stored value under the facts that dominate it
            defs = []
            if v[0] == "local":
                for dbb, term in body.all_defs_origins(v[1]):
                    defs.append((dbb, term))
            else:
                defs.append((bi, val))
            bad = []
            shown = []
            for dbb, term in defs:
                facts = [atom_norm(a, g) for a in body.facts_at(dbb)]
                r = iv.eval_term(body, norm(term, g), facts)
                shown.append("%s in %s" % (show(norm(term, g), 1)[:70], iv.show_iv(r)))
                if not iv.within(r, (0, 0), (1, -1)):
                    bad.append("%s evaluates to %s, not within [0, P-1]" % (show(norm(term, g), 1)[:90], iv.show_iv(r)))
            ctx.ob("T7-residue-range", body.name, "construct:.value", "violation" if bad or not defs else "ok",
                   "; ".join(bad) if bad else "every path stores a value in [0, P-1]: " + "; ".join(shown), body.span_of(bi, si))
    ctx.floor("constructions of PrimeResidueClass", n, 2)


# ---------------------------------------------------------------- (2) T4 modulus
def modulus(ctx):
    ctx.clauses.append("the modulus is a prime and residue arithmetic cannot overflow (T4)")
    insts = {}
    for body in ctx.scan(ctx.facts.all_bodies()):
        tys = [l["ty"] for l in body.f["locals"]]
        for bi, t in body.calls():
            tys += t["callee"].get("args", [])
        for ty in tys:
            for m in re.findall(r"PrimeResidueClass<(-?\d+)(?:_i64)?>", ty):
                insts.setdefault(int(m), body.name)
    for p, where in sorted(insts.items()):
        ok = is_prime(p) and (p - 1) * (p - 1) <= 2 ** 63 - 1 and 2 * p <= 2 ** 63 - 1
        why = []
        if not is_prime(p):
            why.append("not a prime")
        if (p - 1) * (p - 1) > 2 ** 63 - 1:
            why.append("(P-1)^2 exceeds i64::MAX, products of canonical values overflow")
        ctx.ob("T4-modulus", where, "PrimeResidueClass<P>:instantiation", "ok" if ok else "violation",
               "P = %d is prime and (P-1)^2 <= i64::MAX" % p if ok else "P = %d: %s" % (p, ", ".join(why)))
    ctx.floor("concrete instantiations of PrimeResidueClass<P> in non-test code", len(insts), 1)


# ---------------------------------------------------------------- (3) T5 pivot precondition
def pivot(ctx):
    ctx.clauses.append("no matrix shape makes the pivot search read past the last row (T5)")
    eng = T5(ctx.facts)
    for tw in TWINS:
        body = ctx.body(tw)
        sites = list(body.calls("::pivot_row"))
        if not sites:
            raise AnchorMissing(tw + " -> Entry::pivot_row call")
        g = ctx.facts.getters()
        rows = {norm(body.origin(t["args"][1]), g) for bi, t in sites}
        ctx.scan(ctx.facts.bodies[d] for d in ctx.facts.reachable(tw) if d in ctx.facts.bodies)
        n = eng.evaluate_entry(ctx, "T5-pivot-row-bound", tw, lambda t, rows=rows: t in rows, report_invariant=False, deep=False)
        ctx.floor("uses of the row counter in " + tw.split("::")[2], n, 3)
    ctx.notes.append("T5 stats: %s" % eng.stats)


# ---------------------------------------------------------------- (4) T3 solve
def solve_guards(ctx):
    ctx.clauses.append("solve only returns true solutions: division guarded by can_divide, residual rows tested (T3)")
    g = ctx.facts.getters()
    for sv in SOLVES:
        body = ctx.body(sv)
        ctx.scan(ctx.facts.with_closures(sv))
        divs = list(body.calls("ops::Div::div"))
        ctx.floor("divisions in " + sv.split("::")[2] + "::solve", len(divs), 1)
        for bi, t in divs:
            args = [norm(body.origin(a), g) for a in t["args"]]
            ok = False
            for a in body.facts_at(bi):
                if a[0] == "bool" and a[2] is True and is_call(a[1], "::can_divide"):
                    ga = [norm(x, g) for x in strip(a[1])[2]]
                    if ga == args:
                        ok = True
            ctx.ob("T3-division-guarded", sv, "Div::div", "ok" if ok else "violation",
                   "dominated by can_divide(t, x) == true on the same operands" if ok else
                   "a division in back-substitution is not dominated by can_divide on the same operands (truncating division would return a non-solution)", body.span_of(bi))
        # Some(result) only after the residual test
        somes = [(bi, si, s) for bi, si, s in body.assigns() if s["rv"]["k"] == "aggregate" and s["rv"].get("agg") == "adt"
                 and s["rv"]["adt"].endswith("option::Option") and s["rv"]["variant"] == "Some" and s["place"]["l"] == 0]
        ctx.floor("Some(result) returns in " + sv.split("::")[2] + "::solve", len(somes), 1)
        for bi, si, s in somes:
            ok = False
            for a in body.facts_at(bi):
                if a[0] == "bool" and a[2] is True and is_call(a[1], "Iterator::all"):
                    c = strip(a[1])
                    rng = norm(body.def_origin(c[2][0]), g)
                    clo = strip(c[2][1])
                    starts_at_rank = contains(rng, lambda s_: isinstance(s_, tuple) and s_ and s_[0] == "field" and s_[2] == "rank")
                    reads_zero = False
                    if clo[0] == "agg" and clo[1].startswith("closure:"):
                        for d in ctx.facts.reachable(clo[1][8:]):
                            if any(True for _ in ctx.facts.bodies[d].calls("Zero::is_zero")):
                                reads_zero = True
                    if starts_at_rank and reads_zero:
                        ok = True
            ctx.ob("T3-residual-tested", sv, "return:Some", "ok" if ok else "violation",
                   "Some(result) is dominated by (rank..rows).all(.. is_zero ..) == true" if ok else
                   "Some(result) can be returned without the residual rows of multiplier*rhs having been tested to be zero (inconsistent systems would get a 'solution')", body.span_of(bi, si))
