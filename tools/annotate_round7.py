"""one-off helper: first-run outcome / strengthening / trigger for the round-7 (-g) seeds"""
import json, os
R = {
 "C14-g": (7, False, "C14 T4-elimination-ranges extended to the START of every row / column loop (table: pivot search from i; swaps from 0 or i; elimination outer loop from i + 1, inner from 0 or i)", "pivot strictly below and right of the target position and the two swapped rows differ in a column between target and the pivot column: <a,b,c | a^2, bc> gives [0,0] instead of [0,2]"),
 "C19-g": (7, True, "", "undirected edge cut with source label > sink label; inside_vertices is then the sink's side"),
}
for sid, (rnd, first, strength, needs) in R.items():
    p = os.path.join(os.path.dirname(__file__), "..", "seeded", sid, "meta.json")
    if not os.path.exists(p):
        continue
    m = json.load(open(p))
    m["detected_at_first_run"] = first
    m["strengthening"] = strength
    m["needs_to_manifest"] = needs
    m["round"] = rnd
    json.dump(m, open(p, "w"), indent=1)
    print("annotated", sid)
