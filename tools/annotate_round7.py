"""one-off helper: first-run outcome / strengthening / trigger for the round-7 (-g) seeds"""
import json, os
R = {
 "C14-g": (7, False, "C14 T4-elimination-ranges extended to the START of every row / column loop (table: pivot search from i; swaps from 0 or i; elimination outer loop from i + 1, inner from 0 or i)", "pivot strictly below and right of the target position and the two swapped rows differ in a column between target and the pivot column: <a,b,c | a^2, bc> gives [0,0] instead of [0,2]"),
 "C11-g": (7, True, "", "a non-trivial subgroup whose generators force a coincidence so that compact() gives a row a smaller number than all its neighbours: D_n (n >= 5) with H = <r s r>"),
 "C07-g": (7, False, "C07 T9-orbifold-key (the generator's key is cones . (* iff !is_loopless) . corners . (x iff !weakly oriented), lists descending, degrees filed by fixed-point / chain tests)", "positive curvature on a D-set with a mirror but no corner: orbifolds 2*, 3*, 4* (2 of 498 D-sets up to size 8)"),
 "C12-g": (7, False, "C12 T3-no-empty-relator made exact: the guard is evaluated for lengths 0, 1, 2, 5 and must let through exactly the non-empty relators (same for C13 T3-every-relator-filed)", "a presentation with a one-letter relator, e.g. <a, b | a, b^3>"),
 "C13-g": (7, True, "", "stabilizer(base_point != 0) on a table with more than one row"),
 "C08-g": (7, False, "C08 T9-symbol-parts (the cone part is printed from the list cone_degrees(ds) itself, only sorted and reversed; `*` + corner list per component of trace_boundary)", "two or more cone points of the same degree: 442 is printed as 42, 2222 as 2, 333 as 3"),
 "C16-g": (7, True, "reported by the generic T16 update-order table added an hour earlier (the inner walk variable d is no longer computed from itself)", "a cut that runs along two or more consecutive edges of the glued face, with a numbering that reaches that configuration (18 of 195 symbols up to 7 chambers)"),
 "C18-g": (7, True, "", "|b| smaller than every column norm of a and a large denominator: [[100000]] x = [[1]]"),
 "C10-g": (7, True, "", "the last letter of a cancels the first letter of b: [1,2].commutator([-2,3])"),
 "C02-g": (7, True, "reported by T4-none-outside-ranges (added for C04-f two hours earlier) and by T5", "SimpleDSym::m at chamber 0 for an adjacent index pair"),
 "C04-g": (7, True, "", "non-commutative automorphism group: 6 chambers with dihedral symmetry of order 6"),
 "C06-g": (7, False, "C06 T2-bound-passthrough (DSets::new configures the search with the caller's dim and max_size unmodified; root = PartialDSet::new(1, dim))", "size bound 0"),
 "C03-g": (7, True, "reported by the proactive T9-canonical-renumbering (written an hour earlier): the early return is not the renumbered builder", "a connected symbol of size >= 3 where chamber 1 is an optimal seed but the other chambers are not in traversal order"),
 "C05-g": (7, True, "reported by the C12 check (is_canonical is C12 code shared with covers)", "k >= 4 and a base group with a class whose only smaller renumbering starts at row 1: covers(*433, 4) has 5 entries instead of 4"),
 "C01-g": (7, True, "reported by C02 / C04 T4-none-outside-ranges and the sibling cross-check at first run; the rule now also runs under C01 and additionally decides that no in-range tuple is rejected by the guard alone (second shape: dimension 3, size 1)", "a symbol printed through SimpleDSym with size <= dim - 2: the cubic tiling <1.1:1 3:1,1,1,1:4,3,4> prints 4,3,0"),
 "C09-g": (7, True, "", "a word u c u^-1 with |u| >= 2 reaching relator_representative: 3D symbol <1.1:4 3:2 4,3 4,4 3,1 2 3 4:4,2,6 6>"),
 "C20-g": (7, True, "", "IntPartition unite(a, b) with b never seen and a >= b: unite(4, 3) on fresh elements"),
 "C15-g": (7, False, "C13 T3-propagate-single-cut made exact: the only program test between the contains_key lookup and the push of an unlabelled occurrence is that lookup (facts from MIR assertions excluded) - an additional `not already in cuts` conjunct is reported", "a relator containing a generator twice with the same sign whose sub-word in between lies in the candidate subgroup, the repeated edge being the only open one: 30 of 5933 symmetry-reduced versions of the test symbols; sheet number depends on the numbering"),
 "C17-g": (7, True, "the same edit as C16-e, made independently under C17; reported by the C16 check T9-reglue-pairs (simplify.rs is C16 code)", "a 1-valent vertex reached by the simplifier with op(1, f) != op(2, f) at the far chamber: 13 of 750 small symbols / covers panic, verdicts change under renumbering and dual"),
 "C19-g": (7, True, "", "undirected edge cut with source label > sink label; inside_vertices is then the sink's side"),
}
for sid, (rnd, first, strength, needs) in R.items():
    p = os.path.join(os.path.dirname(__file__), "..", "seeded", sid, "meta.json")
    if not os.path.exists(p):
        continue
    m = json.load(open(p))
    m["detected_at_first_run"] = first
    m["strengthening"] = strength
    m["needs_to_manifest"] = needs
    m["round"] = rnd
    json.dump(m, open(p, "w"), indent=1)
    print("annotated", sid)
