#!/usr/bin/env python3
"""usage: run_seeded.py import <id> <worktree> <property> '<confirm json>'   -- store a confirmed seeded change under /verif/seeded/<id>/
          run_seeded.py run [<id> ...]                                       -- apply each stored change to /repo, run every claimed quick check, undo, record
The changes are never committed in /repo: `git -C /repo apply` ... `git -C /repo checkout -- .`
CAUTION: a run applies each patch to /repo in turn and the checks rewrite /verif/evidence on the patched trees (a full corpus run takes about
an hour): run nothing else meanwhile, and re-run `./check --all quick` on the clean tree before committing."""
import json, os, shutil, subprocess, sys
V = os.path.dirname(os.path.dirname(os.path.abspath(__file__)))
S = os.path.join(V, "seeded")
REPO = os.environ.get("VERIF_REPO", "/repo")      # a scratch worktree for regression sweeps that must not disturb /repo; the recorded runs use /repo itself


def sh(cmd, **kw):
    return subprocess.run(cmd, shell=True, capture_output=True, text=True, **kw)


def do_import(sid, wt, prop, confirm):
    d = os.path.join(S, sid)
    os.makedirs(d, exist_ok=True)
    shutil.copy(os.path.join(wt, "SEED", "patch.diff"), os.path.join(d, "patch.diff"))
    shutil.copy(os.path.join(wt, "SEED", "demo.rs"), os.path.join(d, "demo.rs"))
    readme = open(os.path.join(wt, "SEED", "README.md")).read()
    open(os.path.join(d, "README.md"), "w").write(readme)
    meta = {"id": sid, "property": prop, "breaks": "see README.md (written by the sub-agent that produced the change, which saw only the property text)",
            "needs_to_manifest": "", "confirmed_by_hand": json.loads(confirm),
            "what_i_ran": "tools/confirm_seed.sh <scratch worktree>: cargo test --offline --lib (suite with change); cargo test --offline --test seed_demo with the change and after git apply -R"}
    json.dump(meta, open(os.path.join(d, "meta.json"), "w"), indent=1)
    print("imported", sid)


def do_run(ids):
    man = json.load(open(os.path.join(V, "MANIFEST.json")))
    props = [c["property_id"] for c in man["checks"]]
    for sid in ids:
        d = os.path.join(S, sid)
        patch = os.path.join(d, "patch.diff")
        assert sh("git -C %s status --porcelain -- src Cargo.toml" % REPO).stdout.strip() == "", "/repo not clean"
        r = sh("git -C %s apply %s" % (REPO, patch))
        if r.returncode != 0:
            print(sid, "patch does not apply:", r.stderr[:200])
            continue
        res = {}
        try:
            sh("./check %s quick" % props[0], cwd=V)      # builds the facts for the patched tree once
            import concurrent.futures
            with concurrent.futures.ThreadPoolExecutor(max_workers=10) as ex:
                outs = list(ex.map(lambda p: (p, sh("VERIF_NO_SELFTEST=1 ./check %s quick" % p, cwd=V)), props))
            for p, c in outs:
                keys = [l.split("violation: ")[1].split("  [")[0] for l in c.stdout.splitlines() if l.strip().startswith("violation: ")]
                if c.returncode != 0:
                    res[p] = {"exit": c.returncode, "violations": keys[:6], "tail": c.stdout.strip().splitlines()[-1][:200] if c.stdout.strip() else c.stderr[-200:]}
        finally:
            sh("git -C %s checkout -- ." % REPO)
        meta = json.load(open(os.path.join(d, "meta.json")))
        meta["checks_that_alarm"] = res
        meta["detected"] = any(v["exit"] == 1 for v in res.values())
        meta["detected_by_own_property_check"] = meta["property"] in res and res[meta["property"]]["exit"] == 1
        json.dump(meta, open(os.path.join(d, "meta.json"), "w"), indent=1)
        print(sid, "detected" if meta["detected"] else "MISSED", {k: v["violations"][:2] or v["tail"] for k, v in res.items()})
    assert sh("git -C %s status --porcelain -- src Cargo.toml" % REPO).stdout.strip() == ""


if __name__ == "__main__":
    if sys.argv[1] == "import":
        do_import(*sys.argv[2:6])
    else:
        ids = sys.argv[2:] or sorted(os.listdir(S))
        do_run(ids)
