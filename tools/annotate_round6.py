"""one-off helper: first-run outcome / strengthening / trigger for the round-6 (-f) seeds and late round-5 ones"""
import json, os
R = {
 "C20-f": (6, False, "C20 T9-find-returns-root (find answers with root_index(a), or with an index for which parent[x] == x dominates the return)", "generic Partition: an element three or more links below its representative (class of >= 8 built by balanced merges), queried first"),
 "C03-f": (6, False, "C03 T8-structural-equality (PartialEq of PartialDSym / SimpleDSet is derived, or a hand-written eq compares dset and orbit_vs)", "two non-isomorphic symbols on the same D-set with the same orbit sizes (they differ only in branching numbers): their canonical forms compare equal"),
 "C04-f": (6, False, "C02 / C04 T4-none-outside-ranges (no Some(..) return of op / r / v / m is reachable for an index > dim, chamber 0 or a chamber > size; path conditions evaluated on all small out-of-range tuples)", "SimpleDSym queried at chamber 0: morphism with base image 0, and fundamental_group's dummy ridge (0,0,0) on symbols with a mirror edge followed by a non-mirror edge at one chamber (covers panic)"),
 "C16-e": (5, False, "C16 T9-reglue-pairs (the literal pair lists handed to reglue are perfect matchings of a chamber set closed under the old operation; op words canonicalised by involution and commutation)", "any input on which fix_local_1_vertex fires (a vertex of degree 1 in a tile): PartialDSet::set panics on the inconsistent gluing"),
 "C17-f": (6, True, "reported by C15 T4-core-type-table (round 5): the decision table of core_type is evaluated for every size / involutive combination; the four-row Z4 case falls into core_type_by_size, which panics", "a core table with four rows and cyclic quotient Z4: low-symmetry symbols from 6 chambers on (2-sheeted covers of a size-3 symbol), every toroidal cover"),
 "C15-f": (6, False, "C15 T9-flattens-all: the iterator pipeline of degree() is now EVALUATED (templates.eval_pipeline) on model sequences for orders 1..6 in a table of 6 rows instead of matched by shape", "a cone word whose order equals the number of rows of the candidate table: cyclic quotients z4 / z6 (6-chamber covers of the cube and hexagonal-prism tilings)"),
 "C19-f": (6, True, "", "undirected vertex cut called with source > sink numerically"),
 "C07-f": (6, True, "", "non-negative base curvature, an orbit with r >= 3 raised from v = 1 to 2 while an orbit with r <= 2 stays at its minimum: 11 D-sets up to size 7"),
 "C08-f": (6, True, "", "bad orbifolds (tear-drop / spindle): is_euclidean true although curvature is positive"),
 "C13-f": (6, False, "C13 T3-propagate-single-cut extended: unlabelled occurrences are counted with multiplicity (a Vec grown per occurrence, not a map keyed by the edge)", "a relator walk that crosses one unlabelled edge several times: power relators (ab)^k at rows with torsion (S3 one-row table: generators span index 3)"),
 "C14-f": (6, True, "reported by the proactive T7-euclid-contract (round 3): the rounded quotient does not fold to an integer step, fail closed", "diagonal entries that are coprime and do not divide each other where the rounded Euclid ends on -1 (2,3 / 2,5 / 4,9): <a,b | a^2, b^3> gives [1,6]"),
 "C18-f": (6, False, "C18 T9-rhs-largest-norm (the right-hand side enters the bound with its largest column norm; ascending sort)", "right-hand sides with >= 2 columns of very different magnitude: solve returns wrong fractions"),
 "C01-f": (6, False, "C01 T5-assert-on-built-dset (an assertion about the contents of the D-set built from the text must be established by from_str; only is_complete is, via T3-fill-complete)", "a syntactically valid text (dim >= 2, size >= 3) whose far-apart operations do not commute, e.g. <1.1:3:2 3,1 2 3,1 3:4 3,3 4>"),
 "C02-f": (6, True, "reported by the proactive T4-storage-layout rule added an hour earlier", "grow(count) with count >= 2"),
 "C12-f": (6, True, "", "deduction chains of depth >= 2 that close a relator cycle away from the scanned row: Coxeter group [4,3,4] at k = 4 (12 tables instead of 10)"),
 "C05-f": (6, True, "the same edit as C12-f, made independently under C05; reported by the C12 check (derived_table is C12 code)", "mirror-generated base with a 4-fold corner next to a 3-fold one, sheet bound >= 4: covers(<1.1:1:1,1,1:4,3>, 4) has 8 entries instead of 7"),
 "C06-f": (6, False, "T12 extended: a loop that still feeds the accessor but no longer ends at dim()/size() at all is reported (before, only inclusive -> exclusive at the same end was)", "dimension 2 or 3, size 6: two non-automorphic elements sharing the minimal row-1 pattern (124 instead of 116 sets)"),
 "C10-f": (6, True, "", "a non-cyclically-reduced word u v u^-1 with |u| >= 2 rotated by an offset between 2 and len - 2"),
}
for sid, (rnd, first, strength, needs) in R.items():
    p = os.path.join(os.path.dirname(__file__), "..", "seeded", sid, "meta.json")
    if not os.path.exists(p):
        continue
    m = json.load(open(p))
    m["detected_at_first_run"] = first
    m["strengthening"] = strength
    m["needs_to_manifest"] = needs
    m["round"] = rnd
    json.dump(m, open(p, "w"), indent=1)
    print("annotated", sid)
