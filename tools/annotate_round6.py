"""one-off helper: first-run outcome / strengthening / trigger for the round-6 (-f) seeds and late round-5 ones"""
import json, os
R = {
 "C20-f": (6, False, "C20 T9-find-returns-root (find answers with root_index(a), or with an index for which parent[x] == x dominates the return)", "generic Partition: an element three or more links below its representative (class of >= 8 built by balanced merges), queried first"),
 "C19-f": (6, True, "", "undirected vertex cut called with source > sink numerically"),
 "C10-f": (6, True, "", "a non-cyclically-reduced word u v u^-1 with |u| >= 2 rotated by an offset between 2 and len - 2"),
}
for sid, (rnd, first, strength, needs) in R.items():
    p = os.path.join(os.path.dirname(__file__), "..", "seeded", sid, "meta.json")
    if not os.path.exists(p):
        continue
    m = json.load(open(p))
    m["detected_at_first_run"] = first
    m["strengthening"] = strength
    m["needs_to_manifest"] = needs
    m["round"] = rnd
    json.dump(m, open(p, "w"), indent=1)
    print("annotated", sid)
