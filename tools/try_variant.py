#!/usr/bin/env python3
"""usage: try_variant.py <Cxx> <file> <old> <new>   -- development aid: facts of /repo with one textual edit (scratch copy, never /repo itself),
evaluates the property's rules on them and prints the violations that the unchanged tree does not have"""
import sys, os, json
sys.path.insert(0, os.path.dirname(os.path.dirname(os.path.abspath(__file__))))
from sa import core, build, main
prop, f, old, new = sys.argv[1:5]
base = build.facts_dir(all_targets=False)
base_keys = {v["key"] for v in main.evaluate(prop, core.Facts(base), "quick").violations()}
out, sc = build.variant_facts([(f, old, new)], base)
try:
    ctx = main.evaluate(prop, core.Facts(out), "quick")
    for v in ctx.violations():
        if v["key"] not in base_keys:
            print(v["key"], "--", v.get("detail", "")[:300])
    print("done")
finally:
    build.cleanup(sc)
