#!/usr/bin/env python3
"""Regenerates /verif/MANIFEST.json from the table below (claimed checks) and properties.jsonl (everything else -> not_applicable)."""
import json, os
V = os.path.dirname(os.path.dirname(os.path.abspath(__file__)))

TB = "rustc nightly 1.97 MIR of the dev profile is faithful (same semantics as the stable build the tests use); std behaves as documented; the engine's dominator/term/idiom machinery (guarded by mutant self-tests and instance floors); see DESIGN.md section 7"

CLAIMED = {
 "C01": ("T5 untrusted-input dataflow over MIR: callee panic preconditions (derived from callee MIR, substituted at call sites) that depend on numbers parsed from the text must be excluded by dominating, still-valid guards in from_str; T3 guard for m % r",
         "Clause-level structural decision for ALL input strings at once: no panic site whose condition depends on a parsed number is reachable without a dominating guard on that number; stored degrees are guarded by m % r == 0; set() writes both directions under the pairing guard. The print/parse round-trip identities are value-level and NOT decided.", "4/C01"),
 "C04": ("T3 guard-dominates-effect (degree comparison between self and other dominates every extension of a morphism; degrees_match dominates every pair queued in fold), T2 required dependence, T4 range/constant slots (inclusive index ranges, base chamber 1, candidate range 2..=size)",
         "Clause-level structural decision: necessary conditions of degree preservation, of is_minimal/minimal_image agreeing on one relation, and of range completeness hold on every path. Minimality/uniqueness of the quotient and exactness of the automorphism list are NOT decided.", "4/C04"),
 "C11": ("T4 constant slot (subgroup scans start at canon(base row 0)), T2 required dependence (representatives read table.get), T9 construct-through (compact() on every return; who-may-call CosetTable::set), T3 guards in scan_and_connect",
         "Clause-level structural decision: necessary conditions of 'H fixes row 0', 'representatives trace to their rows', 'no dead rows' and inverse-consistency of entries hold for every presentation. Correctness/termination of Todd-Coxeter itself is NOT decided.", "4/C11"),
 "C02": ("T5 range-guard dataflow over MIR: every panicking operation fed by an integer argument of the basic queries is dominated by a valid range guard (callee preconditions derived from callee MIR)",
         "Clause-level structural decision for ALL index pairs and chambers at once: totality of op/r/m/v in the four representations (no panic through arguments; out-of-range reaches None). Involution, orbit lengths, agreement of representations and traversal semantics are value-level and NOT decided.", "4/C02"),
 "C10": ("T1 write-through over every MIR body (all writers of FreeWord.w pass through normalized) + guard shape of normalized + type facts",
         "Proves, modulo the completeness of one-pass stack reduction (A5, whose guard shape is also checked), that every FreeWord value produced by any operation is freely reduced; decides that partial_cmp delegates to cmp and Eq/Hash are derived. Total-order, minimal-rotation and permutation-set clauses are value-level and NOT decided.", "4/C10"),
 "C18": ("T1 write-through + T7 symbolic interval evaluation (residue in [0,P-1] on every path), T4 constant relation (modulus prime, no overflow), T5 range guard on the pivot row counter, T3 guard-dominates-effect in solve",
         "Proves canonical residues for every integer input modulo rem_euclid's contract; decides that no matrix shape can push the pivot search past the last row in either row-echelon twin and that solve divides only under can_divide and returns Some only after the residual test. Exact determinant/null-space/solve values and p-adic lifting are NOT decided.", "4/C18"),
}

NA = {
 "C13": "exactness of stabiliser/core/intersection constructions is algorithm correctness over values; the only shape facts in its anchors (compaction, base row 0, reduced words) are armed under C10/C11 and are not necessary conditions of C13's own statement (DESIGN 4/C13)",
 "C16": "topology preservation of a rewriting system; no clause is visible in the shape of the code; the one majority-inferred candidate (exclusive seed ranges) does not change behaviour and was not armed (DESIGN 4/C16)",
 "C19": "max-flow/min-cut optimality and separation over all graphs are value-level; the code has no guard/effect structure that is a necessary condition of them (DESIGN 4/C19)",
}


def main():
    props = [json.loads(l) for l in open(os.path.join(V, "properties.jsonl"))]
    checks = []
    for p in props:
        pid = p["id"]
        if pid not in CLAIMED:
            continue
        tech, text, ref = CLAIMED[pid]
        checks.append({
            "property_id": pid,
            "quick_cmd": "./check %s quick" % pid,
            "thorough_cmd": "./check %s thorough" % pid,
            "evidence_file": "/verif/evidence/%s.json" % pid,
            "replay_cmd_template": "./check --replay {path}",
            "engine": "mirfacts+sa",
            "level_claimed": {"category": "other", "text": text, "design_ref": "DESIGN.md section " + ref},
            "level_note": TB,
            "technique": "static analysis: " + tech,
        })
    na = []
    for p in props:
        pid = p["id"]
        if pid in CLAIMED:
            continue
        na.append({"property_id": pid, "reason": NA.get(pid, "static rules for this property are not implemented yet (build in progress); plan in DESIGN.md section 4")})
    man = {
        "version": 1,
        "setup_cmd": "./check --setup",
        "hooks": {"guard": "rust_dsymbols_verif", "enable": "none needed: the analysis reads the MIR of the unmodified source (no hook commits)",
                  "baseline_off_cmd": "cd /repo && cargo test --workspace --no-fail-fast --offline", "source_commits": [], "add_only": True},
        "engines": [{"name": "mirfacts+sa", "path": "/verif/tools/mirfacts (rustc_private MIR->JSON driver), /verif/sa (rule engine)",
                     "serves_properties": sorted(CLAIMED), "kind_free_text": "static analysis over type-checked MIR: dominance, origin terms, range guards, write-through, interval evaluation, constant tables; mutant self-tests"}],
        "checks": checks,
        "not_applicable": na,
        "notes": "All checks are static (no code of /repo is executed). Exit 0 = rules hold; exit 1 + VIOLATION line = a rule instance is violated; exit 2 = BUILD-FAILED or SELFTEST-FAILED (checker problem, nothing claimed). Known findings: /verif/known_findings.json.",
    }
    json.dump(man, open(os.path.join(V, "MANIFEST.json"), "w"), indent=1)
    print("claimed:", sorted(CLAIMED), "not_applicable:", [n["property_id"] for n in na])


main()
