#!/usr/bin/env python3
"""Regenerates /verif/MANIFEST.json from the table below (claimed checks) and properties.jsonl (everything else -> not_applicable)."""
import json, os
V = os.path.dirname(os.path.dirname(os.path.abspath(__file__)))

TB = "rustc nightly 1.97 MIR of the dev profile is faithful (same semantics as the stable build the tests use); std behaves as documented; the engine's dominator/term/idiom machinery (guarded by mutant self-tests and instance floors); see DESIGN.md section 7"

CLAIMED = {
 "C01": ("T5 untrusted-input dataflow over MIR: callee panic preconditions (derived from callee MIR, substituted at call sites) that depend on numbers parsed from the text must be excluded by dominating, still-valid guards in from_str; T3 guard for m % r; T5 per-body panic census of the nom grammar functions/closures (grammar-total)",
         "Clause-level structural decision for ALL input strings at once: no panic site whose condition depends on a parsed number is reachable without a dominating guard on that number; stored degrees are guarded by m % r == 0; set() writes both directions under the pairing guard; printer and parser agree on ranges, emission/consumption condition and the dimension default. The print/parse round-trip identities themselves are value-level and NOT decided.", "4/C01"),
 "C04": ("T3 guard-dominates-effect (degree comparison between self and other dominates every extension of a morphism; degrees_match dominates every pair queued in fold), T2 required dependence, T4 range/constant slots (inclusive index ranges, base chamber 1, candidate range 2..=size); T4 None outside the ranges for op / r / v / m (shared with C02: morphism rejects a base image that is not a chamber only through it)",
         "Clause-level structural decision: necessary conditions of degree preservation, of is_minimal/minimal_image agreeing on one relation, and of range completeness hold on every path. Minimality/uniqueness of the quotient and exactness of the automorphism list are NOT decided.", "4/C04"),
 "C11": ("T4 constant slot (subgroup scans start at canon(base row 0)), T2 required dependence (representatives read table.get), T9 construct-through (compact() on every return; who-may-call CosetTable::set), T3 guards in scan_and_connect; T9 relator scan shape",
         "Clause-level structural decision: necessary conditions of 'H fixes row 0', 'representatives trace to their rows', 'no dead rows' and inverse-consistency of entries hold for every presentation. Correctness/termination of Todd-Coxeter itself is NOT decided.", "4/C11"),
 "C02": ("T5 range-guard dataflow over MIR: every panicking operation fed by an integer argument of the basic queries is dominated by a valid range guard (callee preconditions derived from callee MIR); is_complete overrides; T12 accessor range table; T4 out-of-range tuples reach only None returns (path conditions evaluated on small arguments); T9 builder slots (build_set / build_sym_using_vs / build_sym_using_ms / as_* conversions)",
         "Clause-level structural decision for ALL index pairs and chambers at once: totality of op/r/m/v in the four representations (no panic through arguments; out-of-range reaches None). Involution, orbit lengths, agreement of representations and traversal semantics are value-level and NOT decided.", "4/C02"),
 "C03": ("T6 opaque-value lint: census of ordering/arithmetic/ordered-container operations in the canonical-form pipeline with backward root classification (label vs index vs canonical number); T4 all-seeds minimum; T2 code content; T3 compare_codes compares positions 0.. unbounded and ends only on a difference or an exhausted code; T8 structural equality of symbols (derived PartialEq or every relevant field compared); T9 canonical renumbering (inverse maps over all chambers, op / v looked up through them)",
         "Conditional proof of 'every renumbering yields the same canonical form': label opacity (equivariance, by parametricity) and minimum over all seeds are decided; the remaining step (the code determines the symbol = traversal coverage) is assumed. Isomorphism with the input, fixed point and 'equal forms => isomorphic' are NOT decided.", "4/C03"),
 "C05": ("T9 construct-through (every cover is derived::cover / cover_for_table of the base's own fundamental group and coset table), T2 required dependence (cover closures read base op and m, sheet map traces the edge word), T3/T4 oriented-cover branches and sheet constant; T4 cover algebra (closures of derived::cover evaluated on all small d: projection commutes, degrees preserved, equal fibres)",
         "Clause-level structural decision: necessary conditions of 'assembled from the base' and of the oriented cover's sheet count hold on every path. Commutation of the projection, fibre sizes, connectedness and the conjugacy-class count are NOT decided.", "4/C05"),
 "C06": ("T3 guard-dominates-effect with deep validity (every generated node passed check_and_apply_implications and check_canonicity on its own, unmodified D-set), T3 completeness guard in extract, T4 counter/range/root slots; T9 shape of the orbit scan (scan_single_direction exits, scan_orbit = (head, tail, 4-a-b, w[a])); T2 bound passthrough (DSets::new hands dim and max_size to the search unmodified; one-chamber root)",
         "Clause-level structural decision for a module no test exercises: the closure and orderly-generation filters are applied to every node, only complete sets are emitted, numbering is 1,2,3... Irredundancy and completeness of the enumeration are NOT decided.", "4/C06"),
 "C07": ("T4 constant/table relations (curvature windows by sign, CURV_FAC divisible by 1..=7, branching bound 7, min-degree table r*v>=3), T3 with bool-join disjunct analysis (every way of emitting passes window + filters), T4 counter; T4 window completeness (each window contains curvatures that certainly occur); T4 curvature bookkeeping / minimal hyperbolicity / good-orbifold list / index ranges; T9 orbifold key of the generator (cones, `*` iff a loop, corners, `x` iff not weakly oriented; which degree goes where)",
         "Clause-level structural decision: window signs, exactness of the scaled integer curvature, degree >= 3 and the output filters hold for every D-set and geometry. Equality with the oracle sets (completeness/irredundancy) is NOT decided.", "4/C07"),
 "C08": ("T9/T4: geometry predicates are the sign tests of curvature(ds); T3 spherical needs positive; T4 exclusion table (1 cone -> false, 2 -> equal orders) on the oriented cover's cones; T3 a degree is printed bare only under v <= 9; T2 loopless test over every orbit chamber; T4 Euler characteristic and handle/cross-cap counts by expression evaluation; T9 symbol parts (full cone list with multiplicity, `*` + corners per boundary component); T9 subsymbol renumbering through indices[.]",
         "Thin clause-level decision (weakest claim): predicate/curvature-sign agreement and the shape of the bad-orbifold exclusion. Gauss-Bonnet identity, invariance under renumbering/dual and behaviour under covers are NOT decided.", "4/C08"),
 "C09": ("T1 write-through for FreeWord (shared with C10), T3 guards on cone/relator insertion with operand correspondence (same word, same degree), T4 index-pair and orbit-representative coverage, T3 mutual inverses in find_generators",
         "Clause-level structural decision: all words reduced (proved modulo A5), cones = branched orbits with their own degree, no empty relators, one relator per 2-orbit of every index pair incl. mirrors, facet sides carry inverse words. That the presentation defines the orbifold fundamental group is NOT decided.", "4/C09"),
 "C12": ("T9 construct-through (children = potential_children filtered by is_canonical; extract = compact()), T3 guards (contradiction edge cannot reach Some; deductions joined and re-queued; emission only when complete), T4 row bound min(max_rows, len+1); T3 closure seeded at both ends of a new entry; T4 one slot order (search order = comparison order); T9 relator scan shape; non-empty-relator guard decided on a length table (exactly the empty relators are dropped)",
         "Clause-level structural decision: canonical filter, contradiction rejection, completeness on emission and the row bound hold for every presentation and bound. Pairwise inequivalence and completeness of the list are NOT decided.", "4/C12"),
 "C13": ("T4 operand slots and T3 guards of the Reidemeister-Schreier construction (transversal along the spanning tree, generator wx*g*wy^-1 for unlabelled edges over all rows/letters, edge-word pairs, single-cut propagation, relators from every row), and of core/intersection tables (tuple of all rows; pair images in slot order; numbering by table length; compact on return); every non-empty relator filed (guard decided on a length table)",
         "PARTIAL, structural necessary conditions only; that the generators generate the full stabiliser, that the relators present it and the row counts of core/intersection tables are NOT decided.", "11.6"),
 "C14": ("T6(b) factor-through: relators are consumed only by relator_as_vector whose letter use is sign test + order-independent +=/-= at |g|-1; T9 sorted-on-return with no later mutation; T2 drop-ones / pad-zeros chain; T3/T4 divisor-chain fix-up (guard decided on an integer grid; (gcd, lcm) stores; all pairs); T7 extended-Euclid contract of gcdx by induction; T4 elimination ranges; start of every row / column loop of the elimination routines against a table (evaluated with the step index at 5); simultaneous update of the Euclid step (reads before overwrites)",
         "Proves invariance under rotation/conjugation/free reduction (result factors through exponent sums) and decides ascending output and the 1-dropping/zero-padding shape. The invariant-factor values (Smith normal form) are NOT decided.", "4/C14"),
 "C15": ("T3 guard-dominates-effect with data-chain correspondence (returned cover <- all v == 1 on that cover; Some(cover) <- abelian_invariants(stabilizer(0, relators, same table)) == [0,0,0]; candidates <- flattens_all), T4 point-group name/size tables vs index bound; T9 flattens_all = exact cone order; iterator pipeline of degree() interpreted on model sequences (orders 1..6 in a table of 6 rows)",
         "Clause-level structural decision: branch-freeness (2D), Z^3 test on the same table (3D), covers of the oriented cover, and dead panic arms of the point-group lookup. Existence for every euclidean symbol and numbering independence are NOT decided.", "4/C15"),
 "C17": ("T3 + T9: every Euclidean::Yes is dominated by the four certificate predicates on the data chain ds -> cov -> simp -> key; verdict constructors confined to fail/give_up/is_euclidean; T4 Z^3 subgroup-count constants, key literal parsed by an engine-side reader, data-file format vs the emitting code; T2 orbifold-graph mirror test over every orbit chamber and both indices; T4 invariant key (orientation flag decision table, order of parts)",
         "Clause-level structural decision: a yes verdict cannot be produced without its certificate chain; fallback constants are those of Z^3; the invariant table parses in the reader's format (219 entries, 212 distinct). Totality, invariance and cover consistency are NOT decided.", "4/C17"),
 "C19": ("T3 guard-dominates-effect (cut only on the failed search, from that search's seen set), T4 operand slots (edges leaving the seen set, vertex-splitting reduction slots, residual-step condition with both alternatives, flow cancellation), T8 set-typed edge collection, T9 undirected delegation",
         "PARTIAL, structural necessary conditions only: separation bookkeeping, no-repeat and the reduction's slots are decided for every graph; that the cut has minimum size (max-flow/min-cut optimality) is NOT decided.", "11.6"),
 "C20": ("T8 type structure (owning field types, derived deep Clone of the Impl, fresh UnsafeCell in clone, no Send/Sync impl, no escaping borrows, &mut unite) + compile_fail witnesses with twins; T1-style effect check on the find path; T3 unite links the two roots; T4 classes() looks up and registers a class under the same representative key",
         "Proves clone independence modulo Vec/HashMap::clone being deep; decides !Sync / no escaping borrow / &mut unite and that find only performs path compression to the exit-guarded root. 'Same representative <=> connected by the unions' and first-occurrence order are NOT decided.", "4/C20"),
 "C10": ("T1 write-through over every MIR body (all writers of FreeWord.w pass through normalized) + guard shape of normalized + type facts; T9 ordering (lexicographic, total letter order decided on all pairs, length tie-break)",
         "Proves, modulo the completeness of one-pass stack reduction (A5, whose guard shape is also checked), that every FreeWord value produced by any operation is freely reduced; decides that partial_cmp delegates to cmp and Eq/Hash are derived. Total-order, minimal-rotation and permutation-set clauses are value-level and NOT decided.", "4/C10"),
 "C18": ("T1 write-through + T7 symbolic interval evaluation (residue in [0,P-1] on every path), T4 constant relation (modulus prime, no overflow), T5 range guard on the pivot row counter, T3 guard-dominates-effect in solve; T4 integer row step is a determinant-1 column-clearing transformation applied identically to the multiplier (symbolic evaluation on gcdx samples); T7 extended-Euclid contract of gcdx; T4 residue class operators (integer operation of the same name, evaluated), T7 modular inverse = extended Euclid (invariant by induction on sampled states, simultaneous update, r == 1 asserted), T9 dense matrix primitives (+, -, *, transpose element formulas over full ranges)",
         "Proves canonical residues for every integer input modulo rem_euclid's contract; decides that no matrix shape can push the pivot search past the last row in either row-echelon twin and that solve divides only under can_divide and returns Some only after the residual test. Exact determinant/null-space/solve values and p-adic lifting are NOT decided.", "4/C18"),
 "C16": ("T4 fn-item table census (the four moves; merge steps with tiles/facets merged in primal and dual, even number of dualisations), T3 fixpoint flag discipline (return only under changed == false, reset per round, set on every Some(out) path), T9 construct-through (input and every move output through merge_all; result = as_dsym(current) with branching 1 everywhere; merge_all threads one carried D-set and keeps every Some(out)); T3 squeeze guard (exclusions canonicalised as words in the involutions); T9 re-gluing lists are perfect matchings closed under the old operation (op words modulo involution / commutation); T4 cut_face / cut_tile pair lists unfolded symbolically (every operation defined once on every fresh chamber, commuting non-adjacent operations); T9 collapse shape and call sites (removed set = orbits of the collapsed D-set under an index set containing the connector)",
         "PARTIAL, driver discipline and structural validity of the rewriting primitives: simplify() returns at a fixpoint of all four moves after re-merging, in the input's orientation, and builds a branch-free symbol; re-gluing lists, cut_face / cut_tile gluing tables and collapse keep every operation an involution defined on all chambers with commuting non-adjacent operations at the chambers they create. That any move or merge preserves the manifold, its fundamental group or sphericity of tiles/vertex figures, absence of panics and numbering independence are NOT decided.", "11.6"),
}

NA = {
}


def main():
    props = [json.loads(l) for l in open(os.path.join(V, "properties.jsonl"))]
    checks = []
    for p in props:
        pid = p["id"]
        if pid not in CLAIMED:
            continue
        tech, text, ref = CLAIMED[pid]
        checks.append({
            "property_id": pid,
            "quick_cmd": "./check %s quick" % pid,
            "thorough_cmd": "./check %s thorough" % pid,
            "evidence_file": "/verif/evidence/%s.json" % pid,
            "replay_cmd_template": "./check --replay {path}",
            "engine": "mirfacts+sa",
            "level_claimed": {"category": "other", "text": text, "design_ref": "DESIGN.md section " + ref},
            "level_note": TB,
            "technique": "static analysis: " + tech + "; plus, for the property's anchor files, the table-driven loop-structure rule T10 (must-reach calls / early exits / carried state per loop), the update-order table T16 (loop-carried variables read on the same side of their in-iteration overwrite as on the reference tree), the component-flow table T17 (which tuple component reaches which argument slot), the stale-element lint T11, the accessor range table T12, the member-test lint T13 and sibling cross-checks, applied to the functions reachable from the property's mechanism (DESIGN 11.7)",
        })
    na = []
    for p in props:
        pid = p["id"]
        if pid in CLAIMED:
            continue
        na.append({"property_id": pid, "reason": NA.get(pid, "static rules for this property are not implemented yet (build in progress); plan in DESIGN.md section 4")})
    man = {
        "version": 1,
        "setup_cmd": "./check --setup",
        "hooks": {"guard": "rust_dsymbols_verif", "enable": "none needed: the analysis reads the MIR of the unmodified source (no hook commits)",
                  "baseline_off_cmd": "cd /repo && cargo test --workspace --no-fail-fast --offline", "source_commits": [], "add_only": True},
        "engines": [{"name": "mirfacts+sa", "path": "/verif/tools/mirfacts (rustc_private MIR->JSON driver), /verif/sa (rule engine)",
                     "serves_properties": sorted(CLAIMED), "kind_free_text": "static analysis over type-checked MIR: dominance, origin terms, range guards, write-through, interval evaluation, constant tables; mutant self-tests"}],
        "checks": checks,
        "not_applicable": na,
        "notes": "All checks are static (no code of /repo is executed). Exit 0 = rules hold; exit 1 + VIOLATION line = a rule instance is violated; exit 2 = BUILD-FAILED or SELFTEST-FAILED (checker problem, nothing claimed). Known findings: /verif/known_findings.json.",
    }
    json.dump(man, open(os.path.join(V, "MANIFEST.json"), "w"), indent=1)
    print("claimed:", sorted(CLAIMED), "not_applicable:", [n["property_id"] for n in na])


main()
