#!/usr/bin/env python3
"""usage: mutation_probe.py <Cxx> [<file>:<from>-<to> ...]   -- development aid (not a registered check): single-token mutations of the lines in
the property's mechanism ranges (or the given ranges), each analysed on a scratch copy with the property's rules; prints the mutations that
compile and are NOT reported, for manual triage (equivalent mutant? property-irrelevant? blind spot?).  Nothing of /repo is executed or changed."""
import sys, os, re, json, concurrent.futures
sys.path.insert(0, os.path.dirname(os.path.dirname(os.path.abspath(__file__))))
from sa import core, build, main

SWAPS = [(r" < ", " <= "), (r" <= ", " < "), (r" > ", " >= "), (r" >= ", " > "), (r" == ", " != "), (r" != ", " == "), (r" \+ ", " - "), (r" - ", " + "),
         (r" && ", " || "), (r" \|\| ", " && "), (r"\.\.=", ".."), (r"\bSome\((\w+)\)", None)]


def mutations(line):
    out = []
    for pat, rep in SWAPS:
        if rep is None:
            continue
        for m in re.finditer(pat, line):
            out.append(line[:m.start()] + rep + line[m.end():])
    for m in re.finditer(r"(?<![\w.])(\d)(?![\w.])", line):
        k = int(m.group(1))
        out.append(line[:m.start()] + str(k + 1) + line[m.end():])
        if k > 0:
            out.append(line[:m.start()] + str(k - 1) + line[m.end():])
    for m in re.finditer(r"\((\w+), (\w+)\)", line):
        if m.group(1) != m.group(2):
            out.append(line[:m.start()] + "(%s, %s)" % (m.group(2), m.group(1)) + line[m.end():])
    for m in re.finditer(r"\((\w+), (\w+), (\w+)\)", line):
        a, b, c = m.groups()
        if b != c:
            out.append(line[:m.start()] + "(%s, %s, %s)" % (a, c, b) + line[m.end():])
        if a != b:
            out.append(line[:m.start()] + "(%s, %s, %s)" % (b, a, c) + line[m.end():])
    return [o for o in dict.fromkeys(out) if o != line]


def job(args):
    prop, f, lineno, old_line, new_line, base, base_keys = args
    src = open(os.path.join(build.REPO, f)).read().split("\n")
    # make the edit unique by including neighbouring lines
    lo, hi = max(0, lineno - 2), min(len(src), lineno + 1)
    old = "\n".join(src[lo:hi])
    new = "\n".join(src[lo:lineno - 1] + [new_line] + src[lineno:hi])
    try:
        out, sc = build.variant_facts([(f, old, new)], base)
    except build.BuildFailed:
        return None
    except KeyError:
        return None
    try:
        ctx = main.evaluate(prop, core.Facts(out), "quick")
        new_v = [v["key"] for v in ctx.violations() if v["key"] not in base_keys]
    finally:
        build.cleanup(sc)
    return (f, lineno, old_line.strip(), new_line.strip(), new_v[:2])


if __name__ == "__main__":
    prop = sys.argv[1]
    ranges = []
    if len(sys.argv) > 2:
        for a in sys.argv[2:]:
            f, r = a.split(":")
            lo, hi = r.split("-")
            ranges.append((f, int(lo), int(hi)))
    else:
        p = [json.loads(l) for l in open(os.path.join(os.path.dirname(__file__), "..", "properties.jsonl")) if json.loads(l)["id"] == prop][0]
        for m in p["anchors"]["mechanism"]:
            f, r = m["where"].split(":")
            for part in r.split(","):
                lo, hi = part.split("-")
                ranges.append((f, int(lo), int(hi)))
    base = build.facts_dir(all_targets=False)
    base_keys = {v["key"] for v in main.evaluate(prop, core.Facts(base), "quick").violations()}
    jobs = []
    for f, lo, hi in ranges:
        src = open(os.path.join(build.REPO, f)).read().split("\n")
        for ln in range(lo, min(hi, len(src)) + 1):
            line = src[ln - 1]
            if line.strip().startswith("//") or "assert" in line:
                continue
            for mu in mutations(line):
                jobs.append((prop, f, ln, line, mu, base, base_keys))
    print("mutations:", len(jobs))
    silent = 0
    with concurrent.futures.ProcessPoolExecutor(max_workers=12) as ex:
        for r in ex.map(job, jobs, chunksize=4):
            if r is None:
                continue
            f, ln, old, new, v = r
            if not v:
                silent += 1
                print("SILENT %s:%d  %s   ->   %s" % (f, ln, old, new))
    print("silent:", silent)
