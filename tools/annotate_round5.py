"""one-off helper: first-run outcome / strengthening / trigger for the round-5 (-e) seeds and the late round-4 seed C09-d"""
import json, os
R = {
 "C09-d": (4, False, "C09 T3-closing-test (chained ridge count == m(i, j, d) * (1 on a mirror facet, 2 otherwise), evaluated on samples)", "a strip-shaped 2-orbit (mirror at both ends) with v = 1 and >= 3 chambers, one end mirror glued first, an inner facet glued from the side facing another open inner facet: 20 of 2378 2D symbols up to 8 chambers"),
 "C01-e": (5, False, "T5 engine: shift overflow is an exact trigger `width <= n` (never the weak criterion), triggers on a loop variable are lifted to the loop's range, and the dimension stored in the D-set built from parsed numbers is rewritten to the parsed term", "a symbol text of dimension >= 9 (ten or more op lists)"),
 "C02-e": (5, False, "C02 T4-default-m-table (decision table of the trait-default m evaluated through its path conditions on all small arguments)", "a plain D-set queried with a descending adjacent pair m(i+1, i, d)"),
 "C05-e": (5, True, "", "fundamental group with a non-involutory generator, sheet bound >= 4 (432 at k = 4: 3 covers instead of 4)"),
 "C06-e": (5, False, "C06 T4-canonicity-slots (flag tested, start compared and flag cleared belong to the same chamber)", "dimension >= 2 and size bound >= 5 (DSets::new(2, 5): 47 instead of 46)"),
 "C07-e": (5, False, "C07 T4-root-state (root finished exactly for negative base curvature; path conditions evaluated on curvature -5..7)", "a D-set whose minimal-degree assignment is flat (92 of 498 D-sets up to size 8), hyperbolic or all requested"),
 "C08-e": (5, True, "", "a tear-drop or spindle (positive curvature, not spherical)"),
 "C10-e": (5, True, "", "`a *= &b` where the seam cancels and rhs has >= 2 letters with differing ends"),
 "C13-e": (5, False, "T14 no-truncation lint (integer casts to a narrower type outside the one allowed function)", "input tables with 256 or more rows"),
 "C14-e": (5, False, "C14 T3-last-pass-decides (the pass whose count ends the elimination loop is the last one applied to the matrix)", "pivot >= 2 dividing its column but not its row: <a, b | a^-4 b^6, a^4 b^-9> gives [2, 6] instead of [12]; 15 of 20000 random matrices"),
 "C15-e": (5, False, "C15 T4-core-type-table (v4 / z4 only for tables of 4 rows)", "a symbol with a larger normal quotient in which all generators are involutions, in a numbering that makes them so: 24 sheets instead of 6"),
 "C18-e": (5, True, "", "an i32 input that is a negative exact multiple of P"),
 "C19-e": (5, False, "C19 T4-cut-edges-leave-seen extended: nothing but cloned()/collect()/an identity map between the filter and the reported edges", "a directed 2-cycle v <-> w whose cut arc runs from the higher to the lower label"),
 "C12-e": (5, False, "C12 T9-relators-unmodified (the enumeration stores expanded_relator_set(&rels) as it is)", "a length-two relator joining two different generators (c = b^-1) plus a relator using one of them with mixed signs: Z^2 = <a,b,c | [a,b], b c> enumerated as the Klein bottle group"),
 "C17-e": (5, False, "T15 representatives-not-coarser (see C16-d)", "torus covers whose only size-reducing cut is one of the dropped candidates: 11 of 484 (symbol, dual) verdicts up to 4 chambers"),
 "C03-e": (5, True, "reported by T14 (added two seeds earlier in the same round for C13-e): the generic lint generalised to an unseen module", "symbols with more than 65535 chambers"),
 "C04-e": (5, True, "", "fewer chambers than dimensions: 3D symbols with exactly 2 chambers whose chambers differ only in m23"),
 "C09-e": (5, False, "C09 T5-sentinel-not-unwrapped (a chamber read out of the ridge map may be the sentinel 0: ds.op of it is compared, never unwrapped)", "symbols with both mirror and non-mirror generators where a mirror is glued before an interior facet of one of its chains: 232 of 744 2D symbols up to size 6 (fundamental_group panics)"),
 "C11-e": (5, False, "C11 T3-connect-guards tightened: the coincidence test is exactly gap == 0 && head != tail on the scan's own head and tail", "a presentation with a one-letter relator (a generator declared trivial): the enumeration never closes and hits the table limit"),
 "C20-e": (5, True, "", "IntPartition: the largest element seen is the root of a class with several members, then clone() and a query on a smaller member"),
}
for sid, (rnd, first, strength, needs) in R.items():
    p = os.path.join(os.path.dirname(__file__), "..", "seeded", sid, "meta.json")
    if not os.path.exists(p):
        continue
    m = json.load(open(p))
    m["detected_at_first_run"] = first
    m["strengthening"] = strength
    m["needs_to_manifest"] = needs
    m["round"] = rnd
    json.dump(m, open(p, "w"), indent=1)
    print("annotated", sid)
