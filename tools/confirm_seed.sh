#!/bin/bash
# usage: confirm_seed.sh <worktree> -- re-runs, by hand, what a seeding sub-agent claims:
#   suite green with the change, demo fails with it, demo passes without it.  Prints a JSON summary line.
wt=$1
cd "$wt" || exit 2
export CARGO_NET_OFFLINE=true
git diff --quiet -- src && { echo '{"error":"no source change applied"}'; exit 2; }
git diff -- src > /tmp/seed_current.diff
cmp -s /tmp/seed_current.diff SEED/patch.diff || echo "note: working change differs from SEED/patch.diff" >&2
suite=$(cargo test --offline --lib 2>&1 | grep "test result" | head -1)
demo_with=$(cargo test --offline --test seed_demo 2>&1 | grep "test result" | head -1)
git apply -R SEED/patch.diff || { echo '{"error":"cannot revert"}'; exit 2; }
demo_without=$(cargo test --offline --test seed_demo 2>&1 | grep "test result" | head -1)
git apply SEED/patch.diff
echo "{\"suite_with_change\": \"$suite\", \"demo_with_change\": \"$demo_with\", \"demo_without_change\": \"$demo_without\"}"
