"""one-off helper: first-run outcome / strengthening / trigger for the round-8 (-h) seeds"""
import json, os
R = {
 "C04-h": (8, True, "reported by T4-none-outside-ranges (C01, C04) and T5 (C02)", "morphism(&other, 0) where every degree at chamber 1 of the source equals the 0-1 degree of the image's chamber 1: PartialDSym::m answers chamber 0 through a padding slot"),
 "C10-h": (8, False, "C10 T3-representative-minimum (running minimum seeded with the word, replaced exactly under `candidate < best` / `<=` / cmp == Less of FreeWord's own order on the candidate itself, rotation and inverse both compared, returned)", "a word that is not cyclically reduced, e.g. a b a^-1: rotations reduce to different lengths"),
 "C02-h": (8, False, "T4-undefined-op-stays (every `op(k, x).unwrap_or(y)` of dsets.rs, fundamental_group.rs, delaney2d.rs has y = x; C01, C02, C08, C09)", "a PartialDSet with an open (i,j)-chain: op(j, ei) undefined while op(i, e) is defined"),
 "C03-h": (8, True, "", "two symbols whose canonical forms differ only in the last operation"),
 "C01-h": (8, False, "T4-predicates `walk closed only at e == d` (the 2-orbit walk has no second exit; C01, C02)", "an (i,i+1)-orbit that is a chain covering more than half of the symbol whose smallest chamber is two or more steps from both ends: <1.1:5:3 2 5,2 4 5,1 2 3 4 5:5,4 4 3>"),
 "C06-h": (8, True, "reported by T10 (frozen loop structure of next_undefined) and the operation-index loop floor", "size >= 4 in dimension >= 2: row d0 + 1 complete while a later row still has gaps"),
 "C08-h": (8, False, "C08 T9-boundary-shape: what is sorted are the best_cyclic-normalised components (pushes into the sorted list are best_cyclic(..))", "two boundary components, one with several corner orders, the other between two of its rotations: *32*3 vs *3*32 at 6 chambers"),
 "C07-h": (8, True, "", "a D-set automorphism that moves two orbit pairs, the first with equal values: 3 D-sets of size 6"),
}
for sid, (rnd, first, strength, needs) in R.items():
    p = os.path.join(os.path.dirname(__file__), "..", "seeded", sid, "meta.json")
    if not os.path.exists(p):
        continue
    m = json.load(open(p))
    m["detected_at_first_run"] = first
    m["strengthening"] = strength
    m["needs_to_manifest"] = needs
    m["round"] = rnd
    json.dump(m, open(p, "w"), indent=1)
    print("annotated", sid)
