"""one-off helper: first-run outcome / strengthening / trigger for the round-8 (-h) seeds"""
import json, os
R = {
 "C04-h": (8, True, "reported by T4-none-outside-ranges (C01, C04) and T5 (C02)", "morphism(&other, 0) where every degree at chamber 1 of the source equals the 0-1 degree of the image's chamber 1: PartialDSym::m answers chamber 0 through a padding slot"),
 "C10-h": (8, False, "C10 T3-representative-minimum (running minimum seeded with the word, replaced exactly under `candidate < best` / `<=` / cmp == Less of FreeWord's own order on the candidate itself, rotation and inverse both compared, returned)", "a word that is not cyclically reduced, e.g. a b a^-1: rotations reduce to different lengths"),
 "C02-h": (8, False, "T4-undefined-op-stays (every `op(k, x).unwrap_or(y)` of dsets.rs, fundamental_group.rs, delaney2d.rs has y = x; C01, C02, C08, C09)", "a PartialDSet with an open (i,j)-chain: op(j, ei) undefined while op(i, e) is defined"),
 "C03-h": (8, True, "", "two symbols whose canonical forms differ only in the last operation"),
 "C01-h": (8, False, "T4-predicates `walk closed only at e == d` (the 2-orbit walk has no second exit; C01, C02)", "an (i,i+1)-orbit that is a chain covering more than half of the symbol whose smallest chamber is two or more steps from both ends: <1.1:5:3 2 5,2 4 5,1 2 3 4 5:5,4 4 3>"),
 "C06-h": (8, True, "reported by T10 (frozen loop structure of next_undefined) and the operation-index loop floor", "size >= 4 in dimension >= 2: row d0 + 1 complete while a later row still has gaps"),
 "C08-h": (8, False, "C08 T9-boundary-shape: what is sorted are the best_cyclic-normalised components (pushes into the sorted list are best_cyclic(..))", "two boundary components, one with several corner orders, the other between two of its rotations: *32*3 vs *3*32 at 6 chambers"),
 "C18-h": (8, False, "C18 T4-determinant-sign (swap counter 0, +1 on the path that exchanges rows pr and row of both matrices under pr != row; determinant negated iff nr_swaps odd, evaluated)", "n >= 4 and a pivot 2 or 4 rows below the current row: det of the permutation matrix (0 2) in S4 is +1"),
 "C19-h": (8, True, "", "two consecutive vertex labels a < b with max N(a) == min N(b) and an augmenting path stepping b -> x"),
 "C14-h": (8, True, "", "a relator list containing the empty word (a zero row)"),
 "C20-h": (8, False, "C20 T3-registration-complete (get_index: lookup through the index map only; index.insert(a, slot), elements, rank, parent pushes all on every registering path)", "the 9th distinct element of a generic Partition first seen as an argument of unite"),
 "C13-h": (8, True, "", "a generator that occurs only in a one-letter relator"),
 "C12-h": (8, True, "", "F_2 at index 4: a table whose only smaller renumbering starts at row 1"),
 "C16-h": (8, False, "C16 T4-network-cut-flow (fresh source / sink, marked = (1,2)-orbits of cut_with_insides(min cut), special = orbit([0,1], op(3, d)) of the PARTNER face, start on the rim of the marked set)", "a cover that needs a split-and-glue cut touching the partner face, depending on the numbering: 21 of 216 symbols of size <= 5"),
 "C17-h": (8, True, "reported by T4-graph-labels, written from the mutation probe an hour earlier", "a point whose stabiliser is exactly the inversion group (label 1x): 2- and 3-sheeted covers of some size-4 euclidean symbols"),
 "C11-h": (8, True, "reported by the C12 check (expanded_relator_set is shared); the rule now also runs under C11", "a presentation with a single-letter relator"),
 "C09-h": (8, True, "", "a mirror facet forced through a chain orbit with branching number 1 whose inner facets carry non-trivial words: 3 of 1113 2D symbols up to 7 chambers"),
 "C15-h": (8, True, "reported by the C14 check (invariants.rs is C14 code): T4-elimination-ranges and T9-pivot", "a tall relator matrix whose rows start..m are already zero while later rows are not; depends on the numbering"),
 "C05-h": (8, True, "the same edit as C11-h, made independently under C05; reported by the C11 / C12 checks (expanded_relator_set)", "a base symbol whose presentation keeps a redundant generator with a one-letter relator: 3D symbols of 4 chambers with a two-chamber (i,i+1)-orbit of degree 1"),
 "C07-h": (8, True, "", "a D-set automorphism that moves two orbit pairs, the first with equal values: 3 D-sets of size 6"),
}
for sid, (rnd, first, strength, needs) in R.items():
    p = os.path.join(os.path.dirname(__file__), "..", "seeded", sid, "meta.json")
    if not os.path.exists(p):
        continue
    m = json.load(open(p))
    m["detected_at_first_run"] = first
    m["strengthening"] = strength
    m["needs_to_manifest"] = needs
    m["round"] = rnd
    json.dump(m, open(p, "w"), indent=1)
    print("annotated", sid)
