#![feature(rustc_private)]
extern crate rustc_driver;
extern crate rustc_interface;
extern crate rustc_middle;
extern crate rustc_hir;
extern crate rustc_span;
extern crate rustc_abi;
extern crate rustc_data_structures;

use rustc_driver::{Callbacks, Compilation};
use rustc_interface::interface;
use rustc_middle::ty::{self, TyCtxt};
use rustc_middle::mir::{self, *};
use rustc_hir::def::DefKind;
use rustc_hir::def_id::{DefId, LOCAL_CRATE};
use rustc_span::Span;
use std::fmt::Write as _;

struct Cb;

fn esc(s: &str) -> String {
    let mut o = String::with_capacity(s.len() + 2);
    o.push('"');
    for c in s.chars() {
        match c {
            '"' => o.push_str("\\\""),
            '\\' => o.push_str("\\\\"),
            '\n' => o.push_str("\\n"),
            '\t' => o.push_str("\\t"),
            '\r' => o.push_str("\\r"),
            c if (c as u32) < 0x20 => { let _ = write!(o, "\\u{:04x}", c as u32); }
            c => o.push(c),
        }
    }
    o.push('"');
    o
}

fn span_s(tcx: TyCtxt<'_>, sp: Span) -> String {
    let sm = tcx.sess.source_map();
    let lo = sm.lookup_char_pos(sp.lo());
    let hi = sm.lookup_char_pos(sp.hi());
    format!("{}:{}:{}-{}:{}", lo.file.name.prefer_local_unconditionally(), lo.line, lo.col.0 + 1, hi.line, hi.col.0 + 1)
}

fn place_j<'tcx>(tcx: TyCtxt<'tcx>, body: &Body<'tcx>, p: &Place<'tcx>) -> String {
    let mut s = format!("{{\"l\":{},\"p\":[", p.local.as_usize());
    let mut first = true;
    let mut ty = mir::PlaceTy::from_ty(body.local_decls[p.local].ty);
    for e in p.projection.iter() {
        if !first { s.push(','); }
        first = false;
        match e {
            ProjectionElem::Deref => s.push_str("{\"k\":\"deref\"}"),
            ProjectionElem::Field(f, fty) => {
                // name the field if the base is an ADT
                let mut name = String::new();
                let mut adt = String::new();
                if let ty::Adt(def, _) = ty.ty.kind() {
                    let v = match ty.variant_index { Some(v) => v, None => rustc_abi::FIRST_VARIANT };
                    if def.variants().len() > v.as_usize() {
                        let vd = def.variant(v);
                        if vd.fields.len() > f.as_usize() {
                            name = vd.fields[f].name.to_string();
                        }
                    }
                    adt = tcx.def_path_str(def.did());
                }
                let _ = write!(s, "{{\"k\":\"field\",\"i\":{},\"name\":{},\"adt\":{},\"ty\":{}}}", f.as_usize(), esc(&name), esc(&adt), esc(&format!("{:?}", fty)));
            }
            ProjectionElem::Index(l) => { let _ = write!(s, "{{\"k\":\"index\",\"l\":{}}}", l.as_usize()); }
            ProjectionElem::ConstantIndex { offset, min_length, from_end } => { let _ = write!(s, "{{\"k\":\"cindex\",\"off\":{},\"min\":{},\"from_end\":{}}}", offset, min_length, from_end); }
            ProjectionElem::Subslice { from, to, from_end } => { let _ = write!(s, "{{\"k\":\"subslice\",\"from\":{},\"to\":{},\"from_end\":{}}}", from, to, from_end); }
            ProjectionElem::Downcast(name, v) => { let _ = write!(s, "{{\"k\":\"downcast\",\"v\":{},\"name\":{}}}", v.as_usize(), esc(&name.map(|n| n.to_string()).unwrap_or_default())); }
            ProjectionElem::OpaqueCast(_) => s.push_str("{\"k\":\"opaque\"}"),
            ProjectionElem::UnwrapUnsafeBinder(_) => s.push_str("{\"k\":\"unwrap_binder\"}"),
        }
        ty = ty.projection_ty(tcx, e);
    }
    s.push_str("]}");
    s
}

fn const_j<'tcx>(tcx: TyCtxt<'tcx>, c: &ConstOperand<'tcx>) -> String {
    let ty = c.const_.ty();
    let mut s = format!("{{\"k\":\"const\",\"ty\":{}", esc(&format!("{:?}", ty)));
    // fn item?
    if let ty::FnDef(did, args) = ty.kind() {
        let _ = write!(s, ",\"fn\":{},\"args\":[{}]", esc(&tcx.def_path_str(*did)), args.iter().map(|a| esc(&format!("{:?}", a))).collect::<Vec<_>>().join(","));
    }
    let typing_env = ty::TypingEnv::fully_monomorphized();
    match c.const_ {
        mir::Const::Val(val, _) => {
            if let mir::ConstValue::Scalar(rustc_middle::mir::interpret::Scalar::Ptr(ptr, _)) = val {
                let aid = ptr.provenance.alloc_id();
                if let Some(rustc_middle::mir::interpret::GlobalAlloc::Static(sdid)) = tcx.try_get_global_alloc(aid) {
                    let _ = write!(s, ",\"static\":{}", esc(&tcx.def_path_str(sdid)));
                }
            }
            if let Some(si) = val.try_to_scalar_int() {
                let sz = si.size();
                let bits = si.to_bits(sz);
                let v: i128 = if ty.is_signed() { sz.sign_extend(bits) as i128 } else { bits as i128 };
                let _ = write!(s, ",\"int\":{}", v);
            } else if matches!(val, mir::ConstValue::Slice { .. }) && matches!(ty.kind(), ty::Ref(_, t, _) if t.is_str()) {
                if let Some(bytes) = val.try_get_slice_bytes_for_diagnostics(tcx) {
                    if let Ok(st) = std::str::from_utf8(bytes) { let _ = write!(s, ",\"str\":{}", esc(st)); }
                }
            }
        }
        mir::Const::Unevaluated(uv, _) => {
            let _ = write!(s, ",\"uneval\":{}", esc(&tcx.def_path_str(uv.def)));
            if let Some(promoted) = uv.promoted { let _ = write!(s, ",\"promoted\":{}", promoted.as_usize()); }
            else if uv.args.is_empty() || !uv.args.iter().any(|a| a.has_param_placeholder()) {
                if let Ok(v) = tcx.const_eval_poly(uv.def) {
                    if let Some(si) = v.try_to_scalar_int() {
                        let sz = si.size();
                        let bits = si.to_bits(sz);
                        let v: i128 = if ty.is_signed() { sz.sign_extend(bits) as i128 } else { bits as i128 };
                        let _ = write!(s, ",\"int\":{}", v);
                    }
                }
            }
        }
        mir::Const::Ty(_, ct) => {
            let _ = write!(s, ",\"tyconst\":{}", esc(&format!("{:?}", ct)));
        }
    }
    let _ = typing_env;
    let _ = write!(s, ",\"dbg\":{}}}", esc(&format!("{:?}", c.const_)));
    s
}

trait HasPP { fn has_param_placeholder(&self) -> bool; }
impl<'tcx> HasPP for ty::GenericArg<'tcx> {
    fn has_param_placeholder(&self) -> bool {
        use rustc_middle::ty::TypeVisitableExt;
        self.has_param()
    }
}

fn op_j<'tcx>(tcx: TyCtxt<'tcx>, body: &Body<'tcx>, o: &Operand<'tcx>) -> String {
    match o {
        Operand::Copy(p) => format!("{{\"k\":\"copy\",\"place\":{}}}", place_j(tcx, body, p)),
        Operand::Move(p) => format!("{{\"k\":\"move\",\"place\":{}}}", place_j(tcx, body, p)),
        Operand::Constant(c) => const_j(tcx, c),
        _ => format!("{{\"k\":\"other\",\"dbg\":{}}}", esc(&format!("{:?}", o))),
    }
}

fn rv_j<'tcx>(tcx: TyCtxt<'tcx>, body: &Body<'tcx>, rv: &Rvalue<'tcx>) -> String {
    match rv {
        Rvalue::Use(o, ..) => format!("{{\"k\":\"use\",\"op\":{}}}", op_j(tcx, body, o)),
        Rvalue::Repeat(o, n) => format!("{{\"k\":\"repeat\",\"op\":{},\"n\":{}}}", op_j(tcx, body, o), esc(&format!("{:?}", n))),
        Rvalue::Ref(_, bk, p) => format!("{{\"k\":\"ref\",\"mut\":{},\"place\":{}}}", matches!(bk, BorrowKind::Mut{..}), place_j(tcx, body, p)),
        Rvalue::RawPtr(k, p) => format!("{{\"k\":\"rawptr\",\"kind\":{},\"place\":{}}}", esc(&format!("{:?}", k)), place_j(tcx, body, p)),
        Rvalue::Cast(k, o, t) => format!("{{\"k\":\"cast\",\"kind\":{},\"op\":{},\"ty\":{}}}", esc(&format!("{:?}", k)), op_j(tcx, body, o), esc(&format!("{:?}", t))),
        Rvalue::BinaryOp(b, ops) => format!("{{\"k\":\"binop\",\"op\":{},\"a\":{},\"b\":{}}}", esc(&format!("{:?}", b)), op_j(tcx, body, &ops.0), op_j(tcx, body, &ops.1)),
        Rvalue::UnaryOp(u, o) => format!("{{\"k\":\"unop\",\"op\":{},\"a\":{}}}", esc(&format!("{:?}", u)), op_j(tcx, body, o)),
        Rvalue::Discriminant(p) => format!("{{\"k\":\"discr\",\"place\":{}}}", place_j(tcx, body, p)),
        Rvalue::Aggregate(kind, ops) => {
            let kd = match &**kind {
                AggregateKind::Array(t) => format!("\"agg\":\"array\",\"elem\":{}", esc(&format!("{:?}", t))),
                AggregateKind::Tuple => "\"agg\":\"tuple\"".to_string(),
                AggregateKind::Adt(did, v, args, _, _) => {
                    let def = tcx.adt_def(*did);
                    let vd = def.variant(*v);
                    format!("\"agg\":\"adt\",\"adt\":{},\"variant\":{},\"fields\":[{}],\"args\":{}", esc(&tcx.def_path_str(*did)), esc(&vd.name.to_string()), vd.fields.iter().map(|f| esc(&f.name.to_string())).collect::<Vec<_>>().join(","), esc(&format!("{:?}", args)))
                }
                AggregateKind::Closure(did, _) => format!("\"agg\":\"closure\",\"def\":{}", esc(&tcx.def_path_str(*did))),
                other => format!("\"agg\":\"other\",\"dbg\":{}", esc(&format!("{:?}", other))),
            };
            format!("{{\"k\":\"aggregate\",{},\"ops\":[{}]}}", kd, ops.iter().map(|o| op_j(tcx, body, o)).collect::<Vec<_>>().join(","))
        }
        Rvalue::CopyForDeref(p) => format!("{{\"k\":\"copy_for_deref\",\"place\":{}}}", place_j(tcx, body, p)),
        other => format!("{{\"k\":\"other\",\"dbg\":{}}}", esc(&format!("{:?}", other))),
    }
}

fn callee_j<'tcx>(tcx: TyCtxt<'tcx>, body_def: DefId, func: &Operand<'tcx>) -> String {
    if let Operand::Constant(c) = func {
        if let ty::FnDef(did, args) = c.const_.ty().kind() {
            let mut s = format!("{{\"def\":{},\"args\":[{}]", esc(&tcx.def_path_str(*did)), args.iter().map(|a| esc(&format!("{:?}", a))).collect::<Vec<_>>().join(","));
            let _ = write!(s, ",\"path_with_args\":{}", esc(&tcx.def_path_str_with_args(*did, args)));
            if let Some(tr) = tcx.trait_of_assoc(*did) { let _ = write!(s, ",\"trait\":{}", esc(&tcx.def_path_str(tr))); }
            if let Some(imp) = tcx.impl_of_assoc(*did) {
                let _ = write!(s, ",\"impl_self\":{}", esc(&format!("{:?}", tcx.type_of(imp).instantiate_identity().skip_norm_wip())));
            }
            let _ = write!(s, ",\"local\":{}", did.is_local());
            // try resolve
            let typing_env = ty::TypingEnv::post_analysis(tcx, body_def);
            if let Ok(Some(inst)) = ty::Instance::try_resolve(tcx, typing_env, *did, args) {
                let rd = inst.def_id();
                if rd != *did {
                    let _ = write!(s, ",\"resolved\":{},\"resolved_local\":{}", esc(&tcx.def_path_str(rd)), rd.is_local());
                    if let Some(imp) = tcx.impl_of_assoc(rd) {
                        let _ = write!(s, ",\"resolved_impl_self\":{}", esc(&format!("{:?}", tcx.type_of(imp).instantiate_identity().skip_norm_wip())));
                    }
                }
            }
            s.push('}');
            return s;
        }
    }
    format!("{{\"indirect\":{}}}", esc(&format!("{:?}", func)))
}

fn body_j<'tcx>(tcx: TyCtxt<'tcx>, did: DefId, body: &Body<'tcx>, promoted: Option<usize>) -> String {
    let mut s = String::new();
    let kind = tcx.def_kind(did);
    let _ = write!(s, "{{\"kind\":\"body\",\"def\":{},\"def_kind\":{},\"span\":{},\"from_expansion\":{},\"arg_count\":{}",
        esc(&tcx.def_path_str(did)), esc(&format!("{:?}", kind)), esc(&span_s(tcx, body.span)), body.span.from_expansion(), body.arg_count);
    if let Some(p) = promoted { let _ = write!(s, ",\"promoted\":{}", p); }
    if matches!(kind, DefKind::Closure) {
        let parent = tcx.typeck_root_def_id(did);
        let _ = write!(s, ",\"closure_of\":{}", esc(&tcx.def_path_str(parent)));
    }
    if matches!(kind, DefKind::Fn | DefKind::AssocFn) {
        let _ = write!(s, ",\"vis\":{}", esc(&format!("{:?}", tcx.visibility(did))));
        let sig = tcx.fn_sig(did).instantiate_identity().skip_norm_wip();
        let sk = sig.skip_binder();
        let _ = write!(s, ",\"sig\":{{\"inputs\":[{}],\"output\":{},\"safety\":{}}}",
            sk.inputs().iter().map(|t| esc(&format!("{:?}", t))).collect::<Vec<_>>().join(","),
            esc(&format!("{:?}", sk.output())), esc(&format!("{:?}", sk.safety())));
        let g = tcx.generics_of(did);
        let _ = write!(s, ",\"generics\":[{}]", g.own_params.iter().map(|p| esc(&p.name.to_string())).collect::<Vec<_>>().join(","));
    }
    if let Some(imp) = tcx.impl_of_assoc(did) {
        let _ = write!(s, ",\"impl_self\":{}", esc(&format!("{:?}", tcx.type_of(imp).instantiate_identity().skip_norm_wip())));
        if let Some(tr) = tcx.impl_opt_trait_ref(imp) {
            let _ = write!(s, ",\"impl_trait\":{}", esc(&format!("{:?}", tr.instantiate_identity().skip_norm_wip())));
        }
        let derived = tcx.is_automatically_derived(imp);
        let _ = write!(s, ",\"derived\":{}", derived);
    }
    if let Some(tr) = tcx.trait_of_assoc(did) { let _ = write!(s, ",\"trait_default_of\":{}", esc(&tcx.def_path_str(tr))); }
    // locals
    s.push_str(",\"locals\":[");
    for (i, (l, d)) in body.local_decls.iter_enumerated().enumerate() {
        if i > 0 { s.push(','); }
        let _ = write!(s, "{{\"i\":{},\"ty\":{},\"mut\":{}}}", l.as_usize(), esc(&format!("{:?}", d.ty)), matches!(d.mutability, Mutability::Mut));
    }
    s.push_str("],\"debug\":[");
    for (i, v) in body.var_debug_info.iter().enumerate() {
        if i > 0 { s.push(','); }
        let val = match &v.value { VarDebugInfoContents::Place(p) => place_j(tcx, body, p), VarDebugInfoContents::Const(c) => const_j(tcx, c) };
        let _ = write!(s, "{{\"name\":{},\"val\":{}}}", esc(&v.name.to_string()), val);
    }
    s.push_str("],\"blocks\":[");
    for (bi, (bb, data)) in body.basic_blocks.iter_enumerated().enumerate() {
        if bi > 0 { s.push(','); }
        let _ = write!(s, "{{\"i\":{},\"cleanup\":{},\"stmts\":[", bb.as_usize(), data.is_cleanup);
        let mut first = true;
        for st in &data.statements {
            let j = match &st.kind {
                StatementKind::Assign(b) => format!("{{\"k\":\"assign\",\"place\":{},\"rv\":{},\"span\":{},\"exp\":{}}}", place_j(tcx, body, &b.0), rv_j(tcx, body, &b.1), esc(&span_s(tcx, st.source_info.span)), st.source_info.span.from_expansion()),
                StatementKind::SetDiscriminant { place, variant_index } => format!("{{\"k\":\"setdiscr\",\"place\":{},\"v\":{}}}", place_j(tcx, body, place), variant_index.as_usize()),
                StatementKind::StorageLive(_) | StatementKind::StorageDead(_) | StatementKind::Nop | StatementKind::FakeRead(..) | StatementKind::PlaceMention(..) | StatementKind::AscribeUserType(..) | StatementKind::Coverage(..) | StatementKind::ConstEvalCounter | StatementKind::BackwardIncompatibleDropHint{..} => continue,
                other => format!("{{\"k\":\"other\",\"dbg\":{}}}", esc(&format!("{:?}", other))),
            };
            if !first { s.push(','); }
            first = false;
            s.push_str(&j);
        }
        s.push_str("],\"term\":");
        let t = data.terminator();
        let sp = esc(&span_s(tcx, t.source_info.span));
        let exp = t.source_info.span.from_expansion();
        let tj = match &t.kind {
            TerminatorKind::Goto { target } => format!("{{\"k\":\"goto\",\"t\":{}}}", target.as_usize()),
            TerminatorKind::SwitchInt { discr, targets } => {
                let ts: Vec<String> = targets.iter().map(|(v, b)| format!("[{},{}]", v, b.as_usize())).collect();
                format!("{{\"k\":\"switch\",\"discr\":{},\"targets\":[{}],\"otherwise\":{},\"span\":{}}}", op_j(tcx, body, discr), ts.join(","), targets.otherwise().as_usize(), sp)
            }
            TerminatorKind::Return => "{\"k\":\"return\"}".to_string(),
            TerminatorKind::Unreachable => "{\"k\":\"unreachable\"}".to_string(),
            TerminatorKind::UnwindResume => "{\"k\":\"resume\"}".to_string(),
            TerminatorKind::UnwindTerminate(_) => "{\"k\":\"terminate\"}".to_string(),
            TerminatorKind::Drop { place, target, .. } => format!("{{\"k\":\"drop\",\"place\":{},\"t\":{}}}", place_j(tcx, body, place), target.as_usize()),
            TerminatorKind::Call { func, args, destination, target, fn_span, .. } => {
                format!("{{\"k\":\"call\",\"callee\":{},\"args\":[{}],\"dest\":{},\"t\":{},\"span\":{},\"fn_span\":{},\"exp\":{}}}",
                    callee_j(tcx, did, func),
                    args.iter().map(|a| op_j(tcx, body, &a.node)).collect::<Vec<_>>().join(","),
                    place_j(tcx, body, destination),
                    target.map(|t| t.as_usize().to_string()).unwrap_or("null".into()),
                    sp, esc(&span_s(tcx, *fn_span)), exp)
            }
            TerminatorKind::Assert { cond, expected, msg, target, .. } => {
                let mk = match &**msg {
                    AssertKind::BoundsCheck { len, index } => format!("{{\"k\":\"BoundsCheck\",\"len\":{},\"index\":{}}}", op_j(tcx, body, len), op_j(tcx, body, index)),
                    AssertKind::Overflow(op, a, b) => format!("{{\"k\":\"Overflow\",\"op\":{},\"a\":{},\"b\":{}}}", esc(&format!("{:?}", op)), op_j(tcx, body, a), op_j(tcx, body, b)),
                    AssertKind::OverflowNeg(a) => format!("{{\"k\":\"OverflowNeg\",\"a\":{}}}", op_j(tcx, body, a)),
                    AssertKind::DivisionByZero(a) => format!("{{\"k\":\"DivisionByZero\",\"a\":{}}}", op_j(tcx, body, a)),
                    AssertKind::RemainderByZero(a) => format!("{{\"k\":\"RemainderByZero\",\"a\":{}}}", op_j(tcx, body, a)),
                    other => format!("{{\"k\":\"Other\",\"dbg\":{}}}", esc(&format!("{:?}", other))),
                };
                format!("{{\"k\":\"assert\",\"cond\":{},\"expected\":{},\"msg\":{},\"t\":{},\"span\":{},\"exp\":{}}}", op_j(tcx, body, cond), expected, mk, target.as_usize(), sp, exp)
            }
            TerminatorKind::FalseEdge { real_target, .. } => format!("{{\"k\":\"goto\",\"t\":{}}}", real_target.as_usize()),
            TerminatorKind::FalseUnwind { real_target, .. } => format!("{{\"k\":\"goto\",\"t\":{}}}", real_target.as_usize()),
            other => format!("{{\"k\":\"other\",\"dbg\":{}}}", esc(&format!("{:?}", other))),
        };
        s.push_str(&tj);
        s.push('}');
    }
    s.push_str("]}");
    s
}

impl Callbacks for Cb {
    fn config(&mut self, _config: &mut interface::Config) {}
    fn after_analysis<'tcx>(&mut self, _c: &interface::Compiler, tcx: TyCtxt<'tcx>) -> Compilation {
        let out_dir = std::env::var("MIRFACTS_OUT").unwrap_or_else(|_| "/tmp/mirfacts".into());
        let want = std::env::var("MIRFACTS_CRATE").unwrap_or_default();
        let cname = tcx.crate_name(LOCAL_CRATE).to_string();
        if !want.is_empty() && cname != want { return Compilation::Continue; }
        let mut out = String::new();
        let _ = writeln!(out, "{{\"kind\":\"crate\",\"name\":{},\"crate_types\":{}}}", esc(&cname), esc(&format!("{:?}", tcx.crate_types())));
        // ADTs
        for id in tcx.hir_crate_items(()).definitions() {
            let did = id.to_def_id();
            match tcx.def_kind(did) {
                DefKind::Struct | DefKind::Enum | DefKind::Union => {
                    let def = tcx.adt_def(did);
                    let mut s = format!("{{\"kind\":\"adt\",\"def\":{},\"vis\":{},\"variants\":[", esc(&tcx.def_path_str(did)), esc(&format!("{:?}", tcx.visibility(did))));
                    for (vi, v) in def.variants().iter().enumerate() {
                        if vi > 0 { s.push(','); }
                        let _ = write!(s, "{{\"name\":{},\"fields\":[", esc(&v.name.to_string()));
                        for (fi, f) in v.fields.iter().enumerate() {
                            if fi > 0 { s.push(','); }
                            let fty = tcx.type_of(f.did).instantiate_identity().skip_norm_wip();
                            let _ = write!(s, "{{\"name\":{},\"ty\":{},\"vis\":{}}}", esc(&f.name.to_string()), esc(&format!("{:?}", fty)), esc(&format!("{:?}", f.vis)));
                        }
                        s.push_str("]}");
                    }
                    s.push_str("]}");
                    let _ = writeln!(out, "{}", s);
                }
                DefKind::Impl { of_trait } => {
                    let self_ty = tcx.type_of(did).instantiate_identity().skip_norm_wip();
                    let mut s = format!("{{\"kind\":\"impl\",\"def\":{},\"self_ty\":{},\"of_trait\":{}", esc(&tcx.def_path_str(did)), esc(&format!("{:?}", self_ty)), of_trait);
                    if let Some(tr) = tcx.impl_opt_trait_ref(did) {
                        let tr = tr.instantiate_identity().skip_norm_wip();
                        let _ = write!(s, ",\"trait\":{},\"trait_ref\":{}", esc(&tcx.def_path_str(tr.def_id)), esc(&format!("{:?}", tr)));
                        let _ = write!(s, ",\"polarity\":{}", esc(&format!("{:?}", tcx.impl_polarity(did))));
                        let _ = write!(s, ",\"safety\":{}", esc(&format!("{:?}", tcx.impl_trait_header(did).safety)));
                    }
                    let _ = write!(s, ",\"derived\":{},\"span\":{}}}", tcx.is_automatically_derived(did), esc(&span_s(tcx, tcx.def_span(did))));
                    let _ = writeln!(out, "{}", s);
                }
                DefKind::Const { .. } | DefKind::AssocConst { .. } => {
                    let mut s = format!("{{\"kind\":\"const\",\"def\":{}", esc(&tcx.def_path_str(did)));
                    if tcx.generics_of(did).is_empty() {
                        if let Ok(v) = tcx.const_eval_poly(did) {
                            if let Some(si) = v.try_to_scalar_int() {
                                let ty = tcx.type_of(did).instantiate_identity().skip_norm_wip();
                                let sz = si.size();
                                let bits = si.to_bits(sz);
                                let v: i128 = if ty.is_signed() { sz.sign_extend(bits) as i128 } else { bits as i128 };
                                let _ = write!(s, ",\"int\":{},\"ty\":{}", v, esc(&format!("{:?}", ty)));
                            }
                        }
                    }
                    s.push('}');
                    let _ = writeln!(out, "{}", s);
                }
                _ => {}
            }
        }
        // bodies
        for ldid in tcx.mir_keys(()) {
            let did = ldid.to_def_id();
            let kind = tcx.def_kind(did);
            match kind {
                DefKind::Fn | DefKind::AssocFn | DefKind::Closure => {
                    let body = tcx.optimized_mir(did);
                    let _ = writeln!(out, "{}", body_j(tcx, did, body, None));
                    for (pi, pb) in tcx.promoted_mir(did).iter_enumerated() {
                        let _ = writeln!(out, "{}", body_j(tcx, did, pb, Some(pi.as_usize())));
                    }
                }
                _ => {}
            }
        }
        // statics (for "touches no static" rules)
        for id in tcx.hir_crate_items(()).definitions() {
            let did = id.to_def_id();
            if let DefKind::Static { .. } = tcx.def_kind(did) {
                let _ = writeln!(out, "{{\"kind\":\"static\",\"def\":{}}}", esc(&tcx.def_path_str(did)));
            }
        }
        // how we were invoked, so that scratch variants can be analysed with identical flags
        let argv: Vec<String> = std::env::args().collect();
        let envs: Vec<String> = std::env::vars().filter(|(k, _)| k.starts_with("CARGO_") || k == "OUT_DIR").map(|(k, v)| format!("[{},{}]", esc(&k), esc(&v))).collect();
        let is_test = tcx.sess.opts.test;
        let _ = writeln!(out, "{{\"kind\":\"invocation\",\"crate\":{},\"test\":{},\"cwd\":{},\"argv\":[{}],\"env\":[{}]}}",
            esc(&cname), is_test, esc(&std::env::current_dir().map(|p| p.display().to_string()).unwrap_or_default()),
            argv.iter().map(|a| esc(a)).collect::<Vec<_>>().join(","), envs.join(","));
        std::fs::create_dir_all(&out_dir).unwrap();
        let path = format!("{}/{}.{}.jsonl", out_dir, cname, std::process::id());
        let tmp = format!("{}.tmp", path);
        std::fs::write(&tmp, out).unwrap();
        std::fs::rename(&tmp, &path).unwrap();
        Compilation::Continue
    }
}

fn main() {
    let mut args: Vec<String> = std::env::args().collect();
    // RUSTC_WORKSPACE_WRAPPER: argv[1] is the path to rustc
    if args.len() > 1 && (args[1].ends_with("rustc") || args[1].contains("/rustc")) { args.remove(1); }
    rustc_driver::run_compiler(&args, &mut Cb);
}
