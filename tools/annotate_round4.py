"""one-off helper: first-run outcome / strengthening / trigger for the round-4 (-d) seeds"""
import json, os
R = {
 "C01-d": (True, "", "an (i,i+1)-orbit with >= 3 chambers containing a chamber other than its smallest one without a smaller neighbour (4-cycle numbered 1-3-2-4); about a fifth of the 2D symbols of size >= 4"),
 "C02-d": (False, "C02 T4-query-ranges extended to the is_complete overrides (full quantification / delegation / `true` behind an asserting constructor); T12 accessor range table", "a PartialDSet whose only undefined entries belong to the last operation"),
 "C03-d": (True, "", "3D symbols in which a symmetry of everything except v23 is not a symmetry of the symbol"),
 "C04-d": (True, "", "dimension >= 3, >= 3 chambers: chambers 1 and d agree in all degrees while chambers reached from them by the same word differ in m01 or m23"),
 "C05-d": (True, "caught by the C02 check (DSet::is_loopless range rule): the change is in dsets.rs", "no loops at operations 0..dim-1, bipartite, and a loop at operation dim"),
 "C06-d": (True, "", "dimension 3, max size >= 4: a 4-step forward walk that does not return to its start"),
 "C07-d": (False, "C07 T4-index-ranges (loops feeding operation indices end at dim() inclusively); generalised crate-wide as T12", "a loopless, non-bipartite D-set (projective-plane orbifold) with exactly one cone of order 2..4: 3 of 2468 D-sets up to size 10"),
 "C08-d": (False, "C08 T2-loopless-test (orbit_member_fixed_tests template shared with C17); generalised as lint T13", "an (i,j)-orbit that is a chain with both ends s_i-fixed whose lowest-numbered element is interior, e.g. <1.1:4:1 2 3 4,2 3 4,3 4:4 2 2,8>"),
 "C10-d": (False, "C10 T9-ordering (tie-break operands, positions, letter order decided on all pairs through the path conditions of one iteration)", "`other` a proper prefix of `self`: [1,2].cmp([1]) == Equal"),
 "C11-d": (True, "", "a coincidence that merges row 0 into a higher-numbered row while a row in between is alive (subgroup generator of length >= 3, e.g. a conjugate)"),
 "C12-d": (True, "first reported by T10 only (the all_gens() call disappeared from the loop); C12 T4-one-slot-order now states the reason: search order of free slots = comparison order of the canonicity test", ">= 2 non-involutive generators and index bound >= 5 (Z^2: 19 instead of 21)"),
 "C13-d": (True, "", "stabilizer() with base_point != 0 on a table of a non-normal subgroup"),
 "C14-d": (False, "C14 T4-elimination-ranges (row loops end at mat.len(), column loops at mat[0].len())", "fewer relators than generators with the pivot in a column beyond the number of rows: <a,b | b^3> gives [0,0]"),
 "C15-d": (False, "C15 T9-flattens-all (every cone word has EXACTLY its degree as order; degree() shape)", "non-euclidean symbols with a 4- or 6-fold cone that is only partly unwound while the subgroup still abelianises to Z^3"),
 "C16-d": (False, "first left unreported as not decidable by shape; after a second, independent seed (C17-e) made the same kind of change at the same site, T15 representatives-not-coarser was added (frozen table of orbit_reps index sets, strict supersets reported) with the stated caveat that a coarser set is a valid optimisation when the loop body is symmetric under the added operation", "euclidean symbols whose simplification needs the dropped half of the cut candidates: 9 of 299 symbols with up to 6 chambers (513.5 in the identity numbering)"),
 "C17-d": (False, "C17 T4-invariant-key (orientation flag 2/1/0 as a decision table over is_oriented / is_weakly_oriented; order of the key's parts)", "symbols without mirrors that are not orientable (glide reflections / roto-inversions only): 7 of 478 euclidean symbols up to 5 chambers"),
 "C18-d": (True, "", "wide matrices whose leading rows x rows block is rank-deficient, e.g. [[0,0,1]]"),
 "C19-d": (True, "", "an antiparallel edge pair used by one augmenting path and crossed by a later one (undirected edge cuts): cut one edge too large"),
 "C20-d": (True, "", "an element at depth >= 3 in the union-by-rank forest (class of >= 8 elements built by balanced merges)"),
 "C09-d": (None, "", ""),
}
for sid, (first, strength, needs) in R.items():
    p = os.path.join(os.path.dirname(__file__), "..", "seeded", sid, "meta.json")
    if not os.path.exists(p) or first is None:
        continue
    m = json.load(open(p))
    m["detected_at_first_run"] = first
    m["strengthening"] = strength
    m["needs_to_manifest"] = needs
    m["round"] = 4
    json.dump(m, open(p, "w"), indent=1)
    print("annotated", sid)
