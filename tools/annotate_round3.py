"""one-off helper: record first-run outcome / strengthening / trigger for the round-3 (-c) seeds in their meta.json"""
import json, os
R = {
 "C01-c": (False, "C01 T5-grammar-total (per-body panic census of the nom grammar functions and closures)", "a number token >= 2^64 (20+ digits) anywhere in the text"),
 "C02-c": (True, "", "SimpleDSym only; symbols with size < dim (None for valid i) or size > dim (out-of-range i accepted / panic)"),
 "C03-c": (False, "C03 T3-compare-all-positions (unbounded position range, exits only on difference or exhausted code)", "3D symbols with several fixed points whose codes tie on the first `len` entries (52 of 8584 symbols up to 5 chambers)"),
 "C04-c": (True, "", "connected non-minimal symbol in which no two consecutively numbered chambers are equivalent (e.g. multi-sheeted covers)"),
 "C05-c": (True, "caught by the C02 check (SimpleDSym::v ~ PartialDSym::v sibling agreement), not by a C05 rule: v is C02's accessor", "SimpleDSym base with op(i,d) == op(j,d) for |i-j| > 1"),
 "C06-c": (False, "C06 T9-walk-exit / T9-walk-step / T9-scan-orbit (shape of the orbit scan)", "dimension 3, at least 4 elements"),
 "C07-c": (False, "C07 T4-window-complete (each window contains curvatures that certainly occur)", "hyperbolic request on a D-set with negative base curvature below -CURV_FAC"),
 "C08-c": (False, "C08 T3-bare-degree-single-digit", "a cone or corner of degree exactly 10"),
 "C09-c": (True, "", "two or more letters cancel where facet words are concatenated in trace_word (mirror covers of size 24-32 in 3D)"),
 "C10-c": (True, "", "the operand form FreeWord * &FreeWord with the right operand cancelling completely against the tail of the left one, e.g. [1,2] * &[-2]"),
 "C13-c": (True, "reported through the shape rules of intersection_table (T4-intersection-table, T10), i.e. because the o2n matrix was replaced, not because the packing stride is wrong: a CORRECT HashMap rewrite of the same kind raises the same anchor-lost alarm (DESIGN 11.5 note)", "2 <= ta.len() < tb.len()"),
 "C14-c": (False, "C14 T3-divisor-chain-guard / T4-divisor-chain (guard of the gcd/lcm fix-up evaluated on an integer grid)", "three or more diagonal entries where a later one strictly divides an earlier one and a third is incomparable, e.g. relators a^6 b^6, a^6 b^9, c^8"),
 "C15-c": (True, "", "non-euclidean symbols whose candidate subgroup abelianises to Z^3 + torsion"),
 "C17-c": (False, "C17 T2-mirror-test (fixed-point test at every chamber of the orbit, both indices)", "an (i,i+1)-orbit that is a chain of >= 4 chambers with both ends on i-mirrors whose smallest-numbered chamber is interior"),
 "C18-c": (False, "C18 T4-int-row-step (2x2 transformation of <i64 as Entry>::clear_col has determinant +1, clears the column, same on the multiplier; symbolic evaluation on gcdx samples)", "i64 matrices of size >= 4 with an odd number of odd-step eliminations"),
 "C19-c": (True, "", "directed input where the highest-numbered vertex is neither a tail nor a successor of the highest tail"),
 "C20-c": (False, "C20 T4-classes-keyed-by-rep", "first queried element of a class is not its root and another member follows, e.g. unite(5, 1); classes(&[1, 5])"),
 "C11-c": (True, "caught by the C09/C10 checks (T1 write-through over every writer of FreeWord.w): the change is in free_words.rs, not in cosets.rs", "coset_representative reaching a new row by applying the same generator twice in a row (a generator with a cycle of length >= 4 on the cosets: Z_n n >= 4, Q8, ...)"), "C12-c": (False, "C11/C12 T9-relator-scan (scan_both_ways = (head with the full budget, tail with the rest, gap, w[i]); both exits of scan / scan_inverse)", "relators in which some generator occurs only once: genus-2 surface group at bound 3 (panic), <a,b,c | c = b^3> at bound 4 (two equivalent tables)"),
 "C16-b": (True, "", "renumberings in which a move picks a digon left over by the swapped merge order: 4 of 24 numberings of 553.3, 39 of 191 cyclic shifts of its 192-chamber cover"),
 "C16-a": (False, "C16 T3-squeeze-guard (exclusions canonicalised as words in the involutions, so both directions of the one-step rotation must be excluded)", "a 2-valent vertex whose two faces are glued to each other by a one-step rotation in the unguarded direction: lens spaces L(p,1) as p-gonal dihedra, p >= 6"),
}
import sys
for sid, (first, strength, needs) in R.items():
    p = os.path.join(os.path.dirname(__file__), "..", "seeded", sid, "meta.json")
    if not os.path.exists(p) or first is None:
        continue
    m = json.load(open(p))
    m["detected_at_first_run"] = first
    m["strengthening"] = strength
    m["needs_to_manifest"] = needs
    m["round"] = 3
    json.dump(m, open(p, "w"), indent=1)
    print("annotated", sid)
