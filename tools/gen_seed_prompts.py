#!/usr/bin/env python3
"""usage: gen_seed_prompts.py <round-dir> [<Cxx> ...] -- writes <round-dir>/prompt_<Cxx>.txt for seeding sub-agents.
Each prompt holds ONLY the property text (title, statement, quantifier), the protocol, and the list of places earlier seeds already touched
(taken from /verif/seeded/*/patch.diff hunk headers) - nothing else from /verif."""
import json, os, re, sys, glob
V = os.path.dirname(os.path.dirname(os.path.abspath(__file__)))
rd = sys.argv[1]
want = sys.argv[2:]
props = [json.loads(l) for l in open(os.path.join(V, "properties.jsonl"))]
T = open(os.path.join(V, "tools", "seed_prompt_template.txt")).read()
for p in props:
    if want and p["id"] not in want:
        continue
    places = set()
    for d in sorted(glob.glob(os.path.join(V, "seeded", p["id"] + "-*"))):
        f = None
        lines = open(os.path.join(d, "patch.diff"), errors="replace").read().splitlines()
        k = 0
        while k < len(lines):
            l = lines[k]
            if l.startswith("+++ b/"):
                f = l[6:].strip()
            m = re.match(r"@@ -(\d+)", l)
            if m and f:
                ln = int(m.group(1))
                k += 1
                while k < len(lines) and not lines[k].startswith(("@@", "diff ")):
                    if lines[k].startswith(("-", "+")) and not lines[k].startswith(("---", "+++")):
                        break
                    ln += 1
                    k += 1
                try:
                    src = open(os.path.join("/repo", f), errors="replace").read().splitlines()
                except OSError:
                    src = []
                j = min(ln, len(src)) - 1
                name = None
                while j >= 0:
                    mm = re.search(r"\bfn (\w+)", src[j])
                    if mm:
                        name = mm.group(1)
                        break
                    j -= 1
                places.add("%s fn %s" % (f, name) if name else f)
                continue
            k += 1
    wt = os.path.join(rd, p["id"])
    txt = T.replace("{WT}", wt).replace("{ID}", p["id"]).replace("{TITLE}", p["title"]).replace("{STATEMENT}", p["statement"]) \
           .replace("{QUANT}", p["quantifier"]["text"]).replace("{PLACES}", "; ".join(sorted(places)) or "(none)")
    open(os.path.join(rd, "prompt_%s.txt" % p["id"]), "w").write(txt)
    print(p["id"], len(places), "places")
