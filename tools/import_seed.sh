#!/bin/bash
# usage: import_seed.sh <worktree> <Cxx> <suffix>   -- confirm, import as <Cxx>-<suffix>, remove the worktree, run the checks on it
wt=$1; p=$2; sfx=$3
cd /verif
git -C /repo apply --check $wt/SEED/patch.diff || { echo "patch does not apply to /repo"; exit 1; }
j=$(tools/confirm_seed.sh $wt 2>/dev/null | tail -n 1)
echo "$j"
case "$j" in *'168 passed; 0 failed'*FAILED*'test result: ok'*) ;; *) echo "NOT CONFIRMED"; exit 1;; esac
python3 tools/run_seeded.py import $p-$sfx $wt $p "$j"
git -C /repo worktree remove --force $wt
python3 tools/run_seeded.py run $p-$sfx | tail -n 1
