// Demonstrations of the genuine defects reported by the checks on the pinned tree.
// Used as tests/findings.rs in a scratch worktree: every test fails on the pinned tree
// and passes after the corresponding "fix:" commit.  Not part of any registered check
// (the checks are static); kept as the witness inputs referenced by known_findings.json.
use std::panic::catch_unwind;

use rust_dsymbols::dsets::*;
use rust_dsymbols::dsyms::*;
use rust_dsymbols::fpgroups::cosets::*;
use rust_dsymbols::fpgroups::free_words::FreeWord;
use rust_dsymbols::geometry::prime_residue_classes::PrimeResidueClass;
use rust_dsymbols::geometry::vec_matrix::VecMatrix;
use rust_dsymbols::geometry::matrix::{Matrix, RowEchelonMatrix};

#[test]
fn f1_c10_mul_assign_is_reduced() {
    let mut w = FreeWord::from([1]);
    w *= &FreeWord::from([-1]);
    assert_eq!(w, FreeWord::empty());
    assert_eq!(w.len(), 0);
}

#[test]
fn f2_c18_residue_canonical() {
    let a: PrimeResidueClass<61> = (-61i64).into();
    let z: PrimeResidueClass<61> = 0i64.into();
    assert_eq!(a, z);
    let b: PrimeResidueClass<61> = (-122i32).into();
    assert_eq!(b, z);
}

#[test]
fn f3_c18_rank_wide_full_rank() {
    let m = VecMatrix::from([[1i64, 0]]);
    assert_eq!(m.rank(), 1);
    let t = VecMatrix::from([[1i64], [0]]);
    assert_eq!(t.null_space().len(), 0);
    let m2 = Matrix::from([[1i64, 0]]);
    let _ = RowEchelonMatrix::new(&m2);   // must not panic (rank() itself is private)
}

#[test]
fn f4_c02_simple_dsym_r_v_far_indices() {
    let ds: PartialDSym = "<1.1:2 3:2,1 2,1 2,2:6,3 2,6>".parse().unwrap();
    let s: SimpleDSym = ds.clone().into();
    for i in 0..=3 { for j in 0..=3 { for d in 1..=2 {
        assert_eq!(s.r(i, j, d), ds.r(i, j, d));
        assert_eq!(s.v(i, j, d), ds.v(i, j, d));
        assert_eq!(s.m(i, j, d), ds.m(i, j, d));
    }}}
}

#[test]
fn f5_c01_parse_never_panics() {
    for s in [
        "<1.1:1:0,1,1:3,4>",          // image 0
        "<1.1:1:5,1,1:3,4>",          // image > size
        "<1.1:3:2 3 1,1 2 3,1 2 3:3,4>", // chamber 1 paired twice: 1->2, 2->3?, 3->1
        "<1.1:2 18446744073709551615:2,1 2:3>",  // dim = usize::MAX
        "<1.1:9223372036854775808 2:1,1,1:3,3>", // size = 2^63
        "<1.1:99999999999:1,1,1:3,3>",
    ] {
        let s2 = s.to_string();
        let r = catch_unwind(move || s2.parse::<PartialDSym>().is_ok());
        assert!(r.is_ok(), "parsing {:?} panicked", s);
        assert_eq!(r.unwrap(), false, "parsing {:?} should be an error", s);
    }
    let ok: PartialDSym = "<1.1:2 3:2,1 2,1 2,2:6,3 2,6>".parse().unwrap();
    assert_eq!(ok.to_string(), "<1.1:2 3:2,1 2,1 2,2:6,3 2,6>");
}

fn s3() -> Vec<FreeWord> {
    vec![FreeWord::from([1, 1]), FreeWord::from([2, 2]), FreeWord::from([1, 2, 1, 2, 1, 2])]
}

#[test]
fn f6_c11_subgroup_generators_fix_row_0() {
    let h = vec![FreeWord::from([2])];
    let t = coset_table(2, &s3(), &h);
    assert_eq!(t.len(), 3);
    assert_eq!(t.get(0, 2), Some(0));
}

#[test]
fn f7_c11_coset_representatives_trace_to_their_row() {
    let h = vec![FreeWord::from([2])];
    let t = coset_table(2, &s3(), &h);
    let reps = coset_representative(&t);
    assert_eq!(reps.len(), t.len());
    for (&row, w) in reps.iter() {
        let mut c = 0;
        for &g in w.iter() { c = t.get(c, g).unwrap(); }
        assert_eq!(c, row, "representative {:?} of row {} ends in row {}", w, row, c);
    }
}

#[test]
fn f8_c04_morphism_preserves_degrees() {
    let a: PartialDSym = "<1.1:1:1,1,1:3,6>".parse().unwrap();
    let b: PartialDSym = "<1.1:1:1,1,1:4,4>".parse().unwrap();
    assert_eq!(a.morphism(&b, 1), None);
    assert!(a.morphism(&a, 1).is_some());
}

fn closes(nr_gens: usize, rels: &[&[isize]], sub: &[&[isize]], index: usize) {
    let rels: Vec<FreeWord> = rels.iter().map(|r| FreeWord::from(r.to_vec())).collect();
    let sub: Vec<FreeWord> = sub.iter().map(|r| FreeWord::from(r.to_vec())).collect();
    let t = coset_table(nr_gens, &rels, &sub);
    for row in 0..t.len() {
        for w in &rels {
            let mut c = row;
            for &g in w.iter() { c = t.get(c, g).unwrap(); }
            assert_eq!(c, row, "relator {:?} does not close at row {}", w, row);
        }
    }
    for w in &sub {
        let mut c = 0;
        for &g in w.iter() { c = t.get(c, g).unwrap(); }
        assert_eq!(c, 0, "subgroup generator {:?} moves row 0", w);
    }
    assert_eq!(t.len(), index, "wrong number of rows");
}

#[test]
fn f9_c11_relators_close_at_every_row() {
    closes(1, &[&[1, 1, 1]], &[&[1, 1]], 1);                 // Z3, H = <a^2> = Z3
    closes(1, &[&[1, 1, 1, 1, 1, 1]], &[&[1, 1, 1, 1]], 2);  // Z6, H = <a^4>
}

#[test]
fn f10_c11_base_row_survives_compaction() {
    closes(2, &[&[1, 1], &[2, 2], &[1, 2, 1, 2, 1, 2]], &[&[-2, -2, -2]], 3);   // S3, H = <b^-3> = <b>
}

#[test]
fn f11_c10_rotating_the_empty_word() {
    assert_eq!(FreeWord::empty().rotated(1), FreeWord::empty());
    assert_eq!(FreeWord::from([1, -1]).rotated(-3), FreeWord::empty());
}

// f12 (C17): needs `use rust_dsymbols::covers::covers; use rust_dsymbols::euclidicity::{is_euclidean, Euclidean};` - run with --release (about 1 s)
#[test]
fn f12_c17_covers_of_a_euclidean_symbol_are_not_rejected_by_the_invariant_table() {
    use rust_dsymbols::covers::covers;
    use rust_dsymbols::euclidicity::{is_euclidean, Euclidean};
    let ds: PartialDSym = "<167.3:3 3:1 2 3,1 3,2 3,1 2 3:3 4,3,4 6>".parse().unwrap();
    assert!(matches!(is_euclidean(&ds), Euclidean::Yes));
    for (k, cov) in covers(&ds, 4).iter().enumerate() {
        if let Euclidean::No(msg) = is_euclidean(cov) {
            assert!(!msg.contains("invariants"), "cover #{} {} rejected: {}", k, cov, msg);   // cover #31 on the pinned tree
        }
    }
}

// f13 (C12): a presentation with a trivial generator (relator of length one) lost a class of subgroups. Found by a seeding sub-agent on the
// unmodified tree, confirmed against a brute-force count of transitive permutation representations up to conjugacy.
#[test]
fn f13_c12_relator_of_length_one_does_not_lose_subgroup_classes() {
    use rust_dsymbols::fpgroups::cosets::coset_tables;
    use rust_dsymbols::fpgroups::free_words::FreeWord;
    let count = |nr: usize, rels: &[&[isize]], k: usize| {
        let rels: Vec<FreeWord> = rels.iter().map(|r| FreeWord::new(r.iter().cloned())).collect();
        coset_tables(nr, &rels, k).count()
    };
    assert_eq!(count(2, &[&[1, 2, -1, -2]], 4), 15);                 // Z^2: sigma(1) + .. + sigma(4)
    assert_eq!(count(3, &[&[1, 2, -1, -2], &[3]], 4), 15);            // 14 on the pinned tree
    assert_eq!(count(3, &[&[2, 3, -2, -3], &[1]], 4), 15);            // 14 on the pinned tree
    assert_eq!(count(3, &[&[1, 2, -1, 2], &[3]], 4), count(2, &[&[1, 2, -1, 2]], 4));   // Klein bottle group: 10 vs 11 on the pinned tree
}

// f14 (C11, C12): words that freely reduce to the empty word (a trivial relator, a trivial subgroup generator) made the enumerations panic at w[0].
// Observed by two seeding sub-agents on the unmodified tree.
#[test]
fn f14_c11_c12_empty_words_are_accepted() {
    use rust_dsymbols::fpgroups::cosets::{coset_table, coset_tables};
    use rust_dsymbols::fpgroups::free_words::FreeWord;
    let z3 = vec![FreeWord::new([1, 1, 1]), FreeWord::new([1, -1])];
    assert_eq!(coset_table(1, &z3, &vec![]).len(), 3);                                         // panicked at cosets.rs `w[0] == g`
    assert_eq!(coset_table(1, &vec![FreeWord::new([1, 1, 1])], &vec![FreeWord::new([1, -1])]).len(), 3);   // panicked in scan_both_ways
    let z2 = vec![FreeWord::new([1, 2, -1, -2]), FreeWord::new([2, -2])];
    assert_eq!(coset_tables(2, &z2, 3).count(), 8);                                             // panicked in scan_both_ways
}

// f15 (C13): the same trivial relator made stabilizer() panic (third site of the empty-word family, found by searching for first-letter reads).
#[test]
fn f15_c13_stabilizer_accepts_a_trivial_relator() {
    use rust_dsymbols::fpgroups::cosets::coset_table;
    use rust_dsymbols::fpgroups::free_words::FreeWord;
    use rust_dsymbols::fpgroups::stabilizer::stabilizer;
    let rels = vec![FreeWord::new([1, 1, 1, 1, 1, 1]), FreeWord::new([1, -1])];
    let ct = coset_table(1, &rels, &vec![FreeWord::new([1, 1])]);
    assert_eq!(ct.len(), 2);
    assert_eq!(stabilizer(0, rels.clone(), &ct), stabilizer(0, vec![FreeWord::new([1, 1, 1, 1, 1, 1])], &ct));
}

